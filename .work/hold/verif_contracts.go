//go:build verif

package codec

// Machine-checked contracts for the wkv verifier (/verif). Comment-only: this
// file contributes no code and is compiled only under the `verif` build tag.

// ---------------------------------------------------------------------------
// C22 — the precomputed body size of every frame is the number of bytes its encoder writes
// ---------------------------------------------------------------------------
//
// Protocol limit: every length-prefixed string is at most 32767 bytes (the encoder panics
// beyond that); the lemmas are stated for frames within that limit.
//
// The frame header carries the body size computed by encode*Size before the body is
// encoded; a decoder reads exactly that many bytes. verifWritten (ghost, verif-tagged)
// counts the bytes handed to the writer: the Writer port contracts add to it, and each
// Encoder primitive is proved to add its width.

//@ package io
//@ func (Writer).Write
//@   ensures codec.verifWritten == old(codec.verifWritten) + len(p) && result.0 == len(p) && result.1 == nil
//@   assigns codec.verifWritten
//@ func (ByteWriter).WriteByte
//@   ensures codec.verifWritten == old(codec.verifWritten) + 1 && result == nil
//@   assigns codec.verifWritten
//@ package github.com/WuKongIM/WuKongIM/pkg/protocol/codec

//@ func (stringWriter).WriteString
//@   ensures verifWritten == old(verifWritten) + len(arg0) && result.0 == len(arg0) && result.1 == nil
//@   assigns verifWritten

//@ func (*Encoder).WriteByte
//@   requires e != nil && e.w != nil
//@   ensures verifWritten == old(verifWritten) + 1 && result == nil
//@   assigns verifWritten
//@ func (*Encoder).WriteInt
//@   requires e != nil && e.w != nil
//@   ensures verifWritten == old(verifWritten) + 1 && result == nil
//@   assigns verifWritten
//@ func (*Encoder).WriteUint8
//@   requires e != nil && e.w != nil
//@   ensures verifWritten == old(verifWritten) + 1
//@   assigns verifWritten
//@ func (*Encoder).WriteInt16
//@   requires e != nil && e.w != nil
//@   ensures verifWritten == old(verifWritten) + 2
//@   assigns verifWritten
//@ func (*Encoder).WriteUint16
//@   requires e != nil && e.w != nil
//@   ensures verifWritten == old(verifWritten) + 2
//@   assigns verifWritten
//@ func (*Encoder).WriteInt32
//@   requires e != nil && e.w != nil
//@   ensures verifWritten == old(verifWritten) + 4
//@   assigns verifWritten
//@ func (*Encoder).WriteUint32
//@   requires e != nil && e.w != nil
//@   ensures verifWritten == old(verifWritten) + 4
//@   assigns verifWritten
//@ func (*Encoder).WriteInt64
//@   requires e != nil && e.w != nil
//@   ensures verifWritten == old(verifWritten) + 8
//@   assigns verifWritten
//@ func (*Encoder).WriteUint64
//@   requires e != nil && e.w != nil
//@   ensures verifWritten == old(verifWritten) + 8
//@   assigns verifWritten
// Strings and binaries carry a two-byte length; longer than 32767 bytes panics.
//@ func (*Encoder).WriteString
//@   requires e != nil && e.w != nil && len(str) <= 32767
//@   ensures verifWritten == old(verifWritten) + 2 + len(str)
//@   assigns verifWritten
//@ func (*Encoder).WriteBinary
//@   requires e != nil && e.w != nil && len(b) <= 32767
//@   ensures verifWritten == old(verifWritten) + 2 + len(b)
//@   assigns verifWritten
//@ func (*Encoder).WriteBytes
//@   requires e != nil && e.w != nil
//@   ensures verifWritten == old(verifWritten) + len(b)
//@   assigns verifWritten
//@ func (*Encoder).WriteStringAll
//@   requires e != nil && e.w != nil
//@   ensures verifWritten == old(verifWritten) + len(str)
//@   assigns verifWritten

//@ func verifConnectSize
//@   requires p != nil && enc != nil && enc.w != nil && len(p.ClientKey) <= 32767 && len(p.DeviceID) <= 32767 && len(p.Token) <= 32767 && len(p.UID) <= 32767
//@   ensures [C22.body-size-is-bytes-written] result.1 == nil ==> verifWritten - old(verifWritten) == result.0

//@ func verifConnackSize
//@   requires p != nil && enc != nil && enc.w != nil && len(p.Salt) <= 32767 && len(p.ServerKey) <= 32767
//@   ensures [C22.body-size-is-bytes-written] result.1 == nil ==> verifWritten - old(verifWritten) == result.0

//@ func verifSendSize
//@   requires p != nil && enc != nil && enc.w != nil && len(p.ChannelID) <= 32767 && len(p.ClientMsgNo) <= 32767 && len(p.MsgKey) <= 32767 && len(p.StreamNo) <= 32767 && len(p.Topic) <= 32767 && len(p.Payload) <= 2147483647
//@   ensures [C22.body-size-is-bytes-written] result.1 == nil ==> verifWritten - old(verifWritten) == result.0

//@ func verifSendackSize
//@   requires p != nil && enc != nil && enc.w != nil && len(p.ClientMsgNo) <= 32767
//@   ensures [C22.body-size-is-bytes-written] result.1 == nil ==> verifWritten - old(verifWritten) == result.0

//@ func verifRecvSize
//@   requires p != nil && enc != nil && enc.w != nil && len(p.ChannelID) <= 32767 && len(p.ClientMsgNo) <= 32767 && len(p.FromUID) <= 32767 && len(p.MsgKey) <= 32767 && len(p.StreamNo) <= 32767 && len(p.Topic) <= 32767 && len(p.Payload) <= 2147483647
//@   ensures [C22.body-size-is-bytes-written] result.1 == nil ==> verifWritten - old(verifWritten) == result.0

//@ func verifRecvackSize
//@   requires p != nil && enc != nil && enc.w != nil
//@   ensures [C22.body-size-is-bytes-written] result.1 == nil ==> verifWritten - old(verifWritten) == result.0

//@ func verifDisconnectSize
//@   requires p != nil && enc != nil && enc.w != nil && len(p.Reason) <= 32767
//@   ensures [C22.body-size-is-bytes-written] result.1 == nil ==> verifWritten - old(verifWritten) == result.0

//@ func verifSubSize
//@   requires p != nil && enc != nil && enc.w != nil && len(p.ChannelID) <= 32767 && len(p.Param) <= 32767 && len(p.SubNo) <= 32767
//@   ensures [C22.body-size-is-bytes-written] result.1 == nil ==> verifWritten - old(verifWritten) == result.0

//@ func verifSubackSize
//@   requires p != nil && enc != nil && enc.w != nil && len(p.ChannelID) <= 32767 && len(p.SubNo) <= 32767
//@   ensures [C22.body-size-is-bytes-written] result.1 == nil ==> verifWritten - old(verifWritten) == result.0

//@ func verifEventSize
//@   requires p != nil && enc != nil && enc.w != nil && len(p.Id) <= 32767 && len(p.Type) <= 32767 && len(p.Data) <= 2147483647
//@   ensures [C22.body-size-is-bytes-written] result.1 == nil ==> verifWritten - old(verifWritten) == result.0

// ---------------------------------------------------------------------------
// C23 — decoding arbitrary bytes never panics and never reads past the input
// ---------------------------------------------------------------------------
//
// dOK: the read position stays inside the buffer. Every reader keeps it, never moves the
// position backwards, and all its index and slice operations are proved in bounds
// (safety obligations). The frame decoders are proved panic-free for arbitrary bodies.

// (Buffers are shorter than 2^62 bytes, so position arithmetic cannot wrap.)
//@ spec dOK(d *Decoder) bool = d != nil && 0 <= d.offset && d.offset <= len(d.p) && len(d.p) < 4611686018427387904

//@ func (*Decoder).Uint8
//@   safety on
//@   requires dOK(d)
//@   ensures [C23.reads-stay-inside-the-input] dOK(d) && d.offset >= old(d.offset) && d.p == old(d.p)

//@ func (*Decoder).Int16
//@   safety on
//@   requires dOK(d)
//@   ensures [C23.reads-stay-inside-the-input] dOK(d) && d.offset >= old(d.offset) && d.p == old(d.p)

//@ func (*Decoder).Uint16
//@   safety on
//@   requires dOK(d)
//@   ensures [C23.reads-stay-inside-the-input] dOK(d) && d.offset >= old(d.offset) && d.p == old(d.p)

//@ func (*Decoder).Int64
//@   safety on
//@   requires dOK(d)
//@   ensures [C23.reads-stay-inside-the-input] dOK(d) && d.offset >= old(d.offset) && d.p == old(d.p)

//@ func (*Decoder).Uint64
//@   safety on
//@   requires dOK(d)
//@   ensures [C23.reads-stay-inside-the-input] dOK(d) && d.offset >= old(d.offset) && d.p == old(d.p)

//@ func (*Decoder).Int32
//@   safety on
//@   requires dOK(d)
//@   ensures [C23.reads-stay-inside-the-input] dOK(d) && d.offset >= old(d.offset) && d.p == old(d.p)

//@ func (*Decoder).Uint32
//@   safety on
//@   requires dOK(d)
//@   ensures [C23.reads-stay-inside-the-input] dOK(d) && d.offset >= old(d.offset) && d.p == old(d.p)

//@ func (*Decoder).String
//@   safety on
//@   requires dOK(d)
//@   ensures [C23.reads-stay-inside-the-input] dOK(d) && d.offset >= old(d.offset) && d.p == old(d.p)

//@ func (*Decoder).StringAll
//@   safety on
//@   requires dOK(d)
//@   ensures [C23.reads-stay-inside-the-input] dOK(d) && d.offset >= old(d.offset) && d.p == old(d.p)

//@ func (*Decoder).Binary
//@   safety on
//@   ensures len(result.0) <= len(d.p)
//@   requires dOK(d)
//@   ensures [C23.reads-stay-inside-the-input] dOK(d) && d.offset >= old(d.offset) && d.p == old(d.p)

//@ func (*Decoder).BinaryAll
//@   safety on
//@   ensures len(result.0) <= len(d.p)
//@   requires dOK(d)
//@   ensures [C23.reads-stay-inside-the-input] dOK(d) && d.offset >= old(d.offset) && d.p == old(d.p)

//@ func (*Decoder).Bytes
//@   safety on
//@   ensures len(result.0) <= len(d.p)
//@   requires dOK(d) && num >= 0 && num < 4611686018427387904
//@   ensures [C23.reads-stay-inside-the-input] dOK(d) && d.offset >= old(d.offset) && d.p == old(d.p)

//@ func (*Decoder).Variable
//@   safety on
//@   requires dOK(d)
//@   ensures [C23.reads-stay-inside-the-input] dOK(d) && d.offset >= old(d.offset) && d.p == old(d.p)
//@   loop 1 invariant dOK(d) && d.offset >= old(d.offset) && d.p == old(d.p)

//@ func decodeMessageSeq
//@   safety on
//@   requires dOK(dec)
//@   ensures dOK(dec) && dec.offset >= old(dec.offset) && dec.p == old(dec.p)

// The remaining-length prefix: at most four bytes are read, all inside the input.
//@ func decodeLength
//@   safety on
//@   ensures [C23.reads-stay-inside-the-input] result.2 == nil ==> 1 <= result.1 && result.1 <= 5
//@   ensures [C23.no-progress-without-a-frame] result.2 == nil && result.1 <= 4 ==> result.1 <= len(data) && data[result.1 - 1] < 128
//@   loop 1 invariant 0 <= offset && offset <= 4 && multiplier == 7 * offset
//@   loop 1 invariant forall j in 0..offset: j < len(data) && data[j] >= 128
//@   loop 1 decreases 4 - offset

//@ func decodeConnect
//@   safety on
//@   requires hasType(f, frame.Framer) && len(data) < 4611686018427387904

//@ func decodeConnack
//@   safety on
//@   requires hasType(f, frame.Framer) && len(data) < 4611686018427387904

//@ func decodeSend
//@   safety on
//@   requires hasType(f, frame.Framer) && len(data) < 4611686018427387904

//@ func decodeSendack
//@   safety on
//@   requires hasType(f, frame.Framer) && len(data) < 4611686018427387904

//@ func decodeRecv
//@   safety on
//@   requires hasType(f, frame.Framer) && len(data) < 4611686018427387904

//@ func decodeRecvack
//@   safety on
//@   requires hasType(f, frame.Framer) && len(data) < 4611686018427387904

//@ func decodeDisConnect
//@   safety on
//@   requires hasType(f, frame.Framer) && len(data) < 4611686018427387904

//@ func decodeSub
//@   safety on
//@   requires hasType(f, frame.Framer) && len(data) < 4611686018427387904

//@ func decodeSuback
//@   safety on
//@   requires hasType(f, frame.Framer) && len(data) < 4611686018427387904

//@ func decodeEvent
//@   safety on
//@   requires hasType(f, frame.Framer) && len(data) < 4611686018427387904

//@ func NewDecoder
//@   ensures result != nil && fresh(result) && result.offset == 0 && result.p == p
//@   assigns nothing

//@ func decodeSendackBody
//@   safety on
//@   requires len(data) < 4611686018427387904
//@ func decodeSendackBodyCoreFirst
//@   safety on
//@   requires len(data) < 4611686018427387904
//@ func decodeSendackBodyClientMsgNoFirst
//@   safety on
//@   requires len(data) < 4611686018427387904

// Reading a header flag of a frame has no effect.
//@ package github.com/WuKongIM/WuKongIM/pkg/protocol/frame
//@ func (Frame).GetHasServerVersion
//@   assigns nothing
//@ package github.com/WuKongIM/WuKongIM/pkg/protocol/codec

// Frame level: the fixed header byte needs one byte of input (callers hand over a
// non-empty buffer); whatever the bytes are, the reported consumption lies inside the
// input and a frame is never reported for an incomplete buffer.
//@ func (*WKProto).decodeFramer
//@   safety on
//@   requires len(data) >= 1 && len(data) < 4611686018427387904
//@   ensures result.2 == nil ==> 0 <= result.1 && result.1 <= 5

//@ func (*WKProto).DecodeFrame
//@   safety on
//@   requires len(data) >= 1 && len(data) < 4611686018427387904
//@   ensures [C23.consumption-stays-inside-the-input] 0 <= result.1 && result.1 <= len(data)
//@   ensures [C23.no-progress-without-a-frame] result.2 != nil ==> result.1 == 0 && result.0 == nil

// ---------------------------------------------------------------------------
// C22 — the remaining-length header: precomputed width == bytes written
// ---------------------------------------------------------------------------
//
// vlen is the width of the base-128 encoding as the protocol defines it (a zero length
// has no digit at all). encodedVariableSize returns it, encodeVariable2 hands exactly that
// many bytes to the writer, and the lemma runs both on the same value.
//@ spec vlen(s int) int = s <= 0 ? 0 : (s < 128 ? 1 : (s < 16384 ? 2 : (s < 2097152 ? 3 : (s < 268435456 ? 4 : 5))))

//@ func encodedVariableSize
//@   ensures [C22.header-size-is-bytes-written] result == vlen(old(size))
//@   assigns nothing
//@   loop 1 invariant n >= 0 && n + vlen(size) == vlen(old(size))
//@   loop 1 decreases size

//@ func encodeVariable2
//@   requires enc != nil && enc.w != nil
//@   ensures [C22.header-size-is-bytes-written] verifWritten - old(verifWritten) == vlen(old(size))
//@   assigns verifWritten
//@   loop 1 invariant verifWritten - old(verifWritten) + vlen(size) == vlen(old(size))
//@   loop 1 decreases size

//@ func verifVariableSize
//@   requires enc != nil && enc.w != nil
//@   ensures [C22.header-size-is-bytes-written] verifWritten - old(verifWritten) == result

// ---------------------------------------------------------------------------
// C22 — the fixed header byte round-trips
// ---------------------------------------------------------------------------
//
// For every frame type that fits the four type bits, unpacking the packed header byte
// gives back the frame type and the four flags (for CONNACK: the server-version flag,
// which takes the place of the flag nibble).
//@ func verifFixHeaderRoundTrip
//@   requires f.FrameType < 16
//@   ensures [C22.fixed-header-round-trips] result.FrameType == f.FrameType
//@   ensures [C22.fixed-header-round-trips] f.FrameType != frame.CONNACK ==> result.DUP == f.DUP && result.SyncOnce == f.SyncOnce && result.RedDot == f.RedDot && result.NoPersist == f.NoPersist
//@   ensures [C22.fixed-header-round-trips] f.FrameType == frame.CONNACK ==> result.HasServerVersion == f.HasServerVersion
