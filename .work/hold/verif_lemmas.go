//go:build verif

package codec

import "github.com/WuKongIM/WuKongIM/pkg/protocol/frame"

// Lemma functions and ghost state for the wkv verifier (/verif): compiled only under
// the `verif` build tag, never called by production code. Their contracts live in
// verif_contracts.go.

// verifWritten is ghost state: the number of bytes handed to the encoder's writer so far.
// Only contracts mention it (the Writer port contracts add to it); no code reads it.
var verifWritten int

// Each lemma computes the precomputed body size, then runs the real encoder.
func verifConnectSize(p *frame.ConnectPacket, enc *Encoder, v uint8) (int, error) {
	n := encodeConnectSize(p, v)
	return n, encodeConnect(p, enc, v)
}

func verifConnackSize(p *frame.ConnackPacket, enc *Encoder, v uint8) (int, error) {
	n := encodeConnackSize(p, v)
	return n, encodeConnack(p, enc, v)
}

func verifSendSize(p *frame.SendPacket, enc *Encoder, v uint8) (int, error) {
	n := encodeSendSize(p, v)
	return n, encodeSend(p, enc, v)
}

func verifSendackSize(p *frame.SendackPacket, enc *Encoder, v uint8) (int, error) {
	n := encodeSendackSize(p, v)
	return n, encodeSendack(p, enc, v)
}

func verifRecvSize(p *frame.RecvPacket, enc *Encoder, v uint8) (int, error) {
	n := encodeRecvSize(p, v)
	return n, encodeRecv(p, enc, v)
}

func verifRecvackSize(p *frame.RecvackPacket, enc *Encoder, v uint8) (int, error) {
	n := encodeRecvackSize(p, v)
	return n, encodeRecvack(p, enc, v)
}

func verifDisconnectSize(p *frame.DisconnectPacket, enc *Encoder, v uint8) (int, error) {
	n := encodeDisConnectSize(p, v)
	return n, encodeDisConnect(p, enc, v)
}

func verifSubSize(p *frame.SubPacket, enc *Encoder, v uint8) (int, error) {
	n := encodeSubSize(p, v)
	return n, encodeSub(p, enc, v)
}

func verifSubackSize(p *frame.SubackPacket, enc *Encoder, v uint8) (int, error) {
	n := encodeSubackSize(p, v)
	return n, encodeSuback(p, enc, v)
}

func verifEventSize(p *frame.EventPacket, enc *Encoder, v uint8) (int, error) {
	n := encodeEventSize(p, v)
	return n, encodeEvent(p, enc, v)
}

// The remaining-length header: the precomputed width, then the real writer.
func verifVariableSize(size uint32, enc *Encoder) int {
	n := encodedVariableSize(size)
	encodeVariable2(size, enc)
	return n
}

// The fixed header byte: what ToFixHeaderUint8 packs, FramerFromUint8 unpacks.
func verifFixHeaderRoundTrip(f frame.Framer) frame.Framer {
	return FramerFromUint8(ToFixHeaderUint8(f))
}
