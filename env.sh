# Environment for every wkv command (DESIGN.md 2.1): explicit go1.25.11 toolchain, offline.
export PATH=/root/go/pkg/mod/golang.org/toolchain@v0.0.1-go1.25.11.linux-amd64/bin:$PATH
export GOTOOLCHAIN=local GOFLAGS=-mod=mod GOPROXY=off
export GOCACHE=${GOCACHE:-/root/.cache/go-build}
