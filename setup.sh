#!/bin/bash
# Builds the wkv verifier from files on disk only (vendored x/tools); no network.
set -e
cd "$(dirname "$0")"
. ./env.sh
cd engine && go build -mod=vendor -o ../bin/wkv ./cmd/wkv
