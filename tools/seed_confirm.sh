#!/bin/bash
# tools/seed_confirm.sh <seed-id> <property> <worktree>
# Confirms a seeded change (demo fails with it / passes without, package tests still pass), stores it under
# /verif/seeded/<seed-id>/ and runs the property's check against it (applied to /repo, then reverted).
set -u
id="$1"; prop="$2"; wt="$3"
. /verif/env.sh
dest=/verif/seeded/$id; mkdir -p $dest
cp $wt/SEEDED/patch.diff $dest/patch.diff; cp $wt/SEEDED/demo_test.go $dest/demo_test.go.txt; cp $wt/SEEDED/meta.json $dest/agent_meta.json
demo_pkg=$(dirname $(cd $wt && git status --short | grep zz_seeded_demo_test.go | awk '{print $2}'))
demo_run=$(grep -o "func Test[A-Za-z0-9_]*" $wt/$demo_pkg/zz_seeded_demo_test.go | head -1 | sed 's/func //')
cd $wt
# make sure the worktree holds exactly the patch
git checkout -q -- . ; git apply $dest/patch.diff || { echo "patch does not apply"; exit 2; }
go build ./... > $dest/build.log 2>&1; b=$?
go test -vet=off -count=1 -run "^${demo_run}\$" ./$demo_pkg > $dest/demo_with_change.log 2>&1; with=$?
pk=$(git diff --name-only | xargs -n1 dirname | sort -u | sed 's|^|./|' | tr '\n' ' ')
go test -vet=off -count=1 -skip "^${demo_run}\$" $pk > $dest/pkgtests_with_change.log 2>&1; pt=$?
git apply -R $dest/patch.diff
go test -vet=off -count=1 -run "^${demo_run}\$" ./$demo_pkg > $dest/demo_without_change.log 2>&1; without=$?
git apply $dest/patch.diff
cd /verif
git -C /repo apply $dest/patch.diff
WKV_NO_EVIDENCE=1 ./check $prop > $dest/check_output.log 2>&1; rc=$?
git -C /repo apply -R $dest/patch.diff
cp -r /verif/replay/$prop $dest/replay 2>/dev/null
echo "seed=$id prop=$prop build=$b demo_with_change_exit=$with (want 1) demo_without_exit=$without (want 0) pkgtests_exit=$pt (want 0) check_exit=$rc (want 1) demo=$demo_pkg:$demo_run"
grep "^VIOLATION\|^FAILED" $dest/check_output.log | head -5
