#!/bin/bash
# runs every claimed check (quick) and prints one line per property
cd /verif
for p in $(python3 -c "import json;print(' '.join(c['property_id'] for c in json.load(open('MANIFEST.json'))['checks']))") "$@"; do
  s=$(date +%s); out=$(./check $p 2>&1); rc=$?; e=$(date +%s)
  echo "$p rc=$rc $((e-s))s $(echo "$out" | grep '^wkv' | sed 's/^wkv [A-Z0-9]* quick: //') $(echo "$out" | grep -c '^KNOWN-FINDING') known"
done
