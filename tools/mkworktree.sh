#!/bin/bash
# tools/mkworktree.sh <seed-id> <property>: scratch worktree /tmp/wt_<seed-id> of /repo HEAD without the verif-tagged
# files, and the sub-agent prompt (property text + worktree only) written to /tmp/wt_<seed-id>.prompt
set -e
id="$1"; prop="$2"; wt=/tmp/wt_$id
git -C /repo worktree add -q --detach $wt HEAD
find $wt -name 'verif_contracts.go' -o -name 'verif_lemmas.go' | xargs rm -f
(cd $wt && git add -A && git -c user.name=x -c user.email=x@x commit -qm "scratch: drop verif files" )
python3 - "$id" "$prop" "$wt" <<'PY'
import json,sys
id,prop,wt=sys.argv[1:4]
p=[json.loads(l) for l in open('/verif/properties.jsonl') if json.loads(l)['id']==prop][0]
text="\n".join(f"{k}: {json.dumps(v) if not isinstance(v,str) else v}" for k,v in p.items() if k not in ('id',))
t=open('/verif/tools/agent_prompt_template.txt').read().replace('__WT__',wt).replace('__PROP__',text)
open(wt+'.prompt','w').write(t)
print(wt+'.prompt')
PY
