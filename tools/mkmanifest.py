#!/usr/bin/env python3
"""Generates /verif/MANIFEST.json from specs/manifest_entries.json (claimed checks,
not-applicable reasons) and the list of hook commits in /repo."""
import json, subprocess, os
V = os.path.dirname(os.path.dirname(os.path.abspath(__file__)))
src = json.load(open(os.path.join(V, 'specs', 'manifest_entries.json')))
props = [json.loads(l) for l in open(os.path.join(V, 'properties.jsonl'))]
ids = [p['id'] for p in props]
commits = subprocess.run(['git', '-C', '/repo', 'log', '--format=%H %s', 'b7afa2a71..HEAD'], capture_output=True, text=True).stdout.strip().splitlines()
hook_commits = [c.split()[0] for c in commits if c.split(' ', 1)[1].startswith('verif:') or 'uncommitted hook changes' in c]
checks = []
for pid in ids:
    e = src['checks'].get(pid)
    if not e:
        continue
    checks.append({
        "property_id": pid,
        "quick_cmd": f"./check {pid} --tier quick",
        "thorough_cmd": f"./check {pid} --tier thorough",
        "evidence_file": f"/verif/evidence/{pid}.json",
        "replay_cmd_template": f"./check {pid} --replay {{path}}",
        "engine": "wkv",
        "level_claimed": {"category": "proof", "text": e['text'], "design_ref": e.get('design_ref', 'DESIGN.md section 4 ' + pid)},
        "level_note": e['note'],
        "technique": e.get('technique', 'contract-based deductive verification: SSA weakest-precondition VCs from //@ contracts, discharged by z3/cvc5'),
    })
na = []
for pid in ids:
    if pid in src['checks']:
        continue
    reason = src['not_applicable'].get(pid, "check not built yet (see DESIGN.md section 7 build order)")
    na.append({"property_id": pid, "reason": reason})
m = {
    "version": 1,
    "setup_cmd": "cd /verif && ./setup.sh",
    "hooks": {
        "guard": "verif",
        "enable": "go build/test/packages.Load with -tags verif (contract files <pkg>/verif_contracts.go are comment-only, //go:build verif)",
        "baseline_off_cmd": "for m in $(cat /w/out/gomods.txt); do MF=$(cd /repo/$m && . /w/out/goenv.sh && gomodflag); (cd /repo/$m && go test $MF -json -vet=off -count=1 -timeout 25m ./...); done",
        "source_commits": list(reversed(hook_commits)),
        "add_only": True,
    },
    "engines": [{"name": "wkv", "path": "/verif/engine", "serves_properties": [c['property_id'] for c in checks],
                 "kind_free_text": "own deductive verifier: go/ssa -> symbolic execution -> SMT-LIB VCs from //@ contracts kept in /repo (build tag verif); z3 5.1.0 / z3 4.8.12 / cvc5 1.0.3; counterexample replay via go test -overlay"}],
    "checks": checks,
    "notes": src.get('notes', ''),
    "not_applicable": na,
}
json.dump(m, open(os.path.join(V, 'MANIFEST.json'), 'w'), indent=1)
print(len(checks), "checks,", len(na), "not applicable,", len(hook_commits), "hook commits")
