#!/usr/bin/env python3
# mkmutant.py <name> <file-relative-to-/repo> <old> <new> [count]: writes selftest/mutants/<name>.patch replacing old by new once
import sys, subprocess
name, f, old, new = sys.argv[1:5]
p = '/repo/' + f
s = open(p).read()
if s.count(old) < 1:
    sys.exit('old text not found')
if s.count(old) > 1 and len(sys.argv) < 6:
    sys.exit('old text ambiguous (%d)' % s.count(old))
open(p, 'w').write(s.replace(old, new, 1))
d = subprocess.run(['git', '-C', '/repo', 'diff', '--', f], capture_output=True, text=True).stdout
subprocess.run(['git', '-C', '/repo', 'checkout', '--', f])
open('/verif/selftest/mutants/' + name + '.patch', 'w').write(d)
print(d)
