package hashslot

// Bounded stand-in for C20's plan clause (never counted as proved): concrete-
// exhaustive enumeration of every assignment of H hash slots to slots 1..S.
// Injected with `go test -overlay`; nothing is written into /repo.

import (
	"fmt"
	"os"
	"testing"

	"github.com/WuKongIM/WuKongIM/pkg/slot/multiraft"
)

// wkvBalanced: every listed slot owns floor or ceil of its even share.
func wkvBalanced(table *HashSlotTable, slots []multiraft.SlotID) bool {
	if len(slots) == 0 {
		return true
	}
	total := len(table.assignment)
	lo := total / len(slots)
	hi := lo
	if total%len(slots) != 0 {
		hi = lo + 1
	}
	for _, s := range slots {
		n := len(table.HashSlotsOf(s))
		if n < lo || n > hi {
			return false
		}
	}
	return true
}

// slack = 0: every participating slot must end on floor/ceil of the even share;
// slack = 1: within one hash slot of it (the property's wording).
func wkvCheckPlan(t *testing.T, kind string, table *HashSlotTable, plan []MigrationPlan, participants []multiraft.SlotID, slack int) bool {
	moved := map[uint16]bool{}
	after := table.Clone()
	for _, step := range plan {
		if moved[step.HashSlot] {
			t.Errorf("%s: hash slot %d moved twice (assignment %v, plan %v)", kind, step.HashSlot, table.assignment, plan)
			return false
		}
		moved[step.HashSlot] = true
		if int(step.HashSlot) >= len(table.assignment) || table.assignment[step.HashSlot] != step.From {
			t.Errorf("%s: step %+v does not move away from the current owner (assignment %v)", kind, step, table.assignment)
			return false
		}
		if step.To == step.From || step.To == 0 {
			t.Errorf("%s: step %+v has a bad target (assignment %v)", kind, step, table.assignment)
			return false
		}
		after.Reassign(step.HashSlot, step.To)
	}
	if len(participants) == 0 {
		return true
	}
	total := len(after.assignment)
	lo := total / len(participants)
	hi := lo
	if total%len(participants) != 0 {
		hi = lo + 1
	}
	counted := 0
	for _, s := range participants {
		n := len(after.HashSlotsOf(s))
		counted += n
		if n < lo-slack || n > hi+slack {
			t.Errorf("%s: slot %d owns %d hash slots after the plan, ideal share is %d..%d (assignment %v, plan %v)", kind, s, n, lo, hi, table.assignment, plan)
			return false
		}
	}
	if counted != total {
		t.Errorf("%s: %d of %d hash slots are owned by participating slots after the plan (assignment %v, plan %v)", kind, counted, total, table.assignment, plan)
		return false
	}
	return true
}

func TestWkvBoundedPlans(t *testing.T) {
	maxH, maxS := 6, 4
	if os.Getenv("VERIF_TIER") == "thorough" || os.Getenv("WKV_TIER") == "thorough" {
		maxH, maxS = 8, 5
	}
	cases := 0
	for S := 1; S <= maxS; S++ {
		for H := 1; H <= maxH; H++ {
			assign := make([]int, H)
			for {
				table := NewHashSlotTable(uint16(H), 1)
				used := map[multiraft.SlotID]bool{}
				for h, s := range assign {
					table.assignment[h] = multiraft.SlotID(s + 1)
					used[multiraft.SlotID(s+1)] = true
				}
				var active []multiraft.SlotID
				for s := 1; s <= S; s++ {
					if used[multiraft.SlotID(s)] {
						active = append(active, multiraft.SlotID(s))
					}
				}
				cases++
				if !wkvCheckPlan(t, "rebalance", table, ComputeRebalancePlan(table), active, 0) {
					return
				}
				// add / remove plans are specified for a balanced table (they only move hash slots
				// to the new slot / away from the removed one); unbalanced inputs are checked for the
				// structural clauses only (moved once, away from the owner).
				balanced := wkvBalanced(table, active)
				// add every slot id in 1..S+1 that owns nothing yet (a fresh highest id, or an id
				// lower than existing ones, e.g. a slot that was removed earlier)
				for ns := 1; ns <= S+1; ns++ {
					newSlot := multiraft.SlotID(ns)
					if used[newSlot] {
						continue
					}
					addParts := append(append([]multiraft.SlotID(nil), active...), newSlot)
					if !balanced {
						addParts = nil
					}
					if !wkvCheckPlan(t, "add", table, ComputeAddSlotPlan(table, newSlot), addParts, 1) {
						return
					}
				}
				for _, rm := range active {
					var rest []multiraft.SlotID
					for _, s := range active {
						if s != rm {
							rest = append(rest, s)
						}
					}
					plan := ComputeRemoveSlotPlan(table, rm)
					if len(rest) == 0 {
						if len(plan) != 0 {
							t.Errorf("remove: plan for the only slot (assignment %v, plan %v)", table.assignment, plan)
							return
						}
						continue
					}
					if !balanced {
						rest = nil
					}
					if !wkvCheckPlan(t, "remove", table, plan, rest, 1) {
						return
					}
				}
				// next assignment
				i := 0
				for i < H {
					assign[i]++
					if assign[i] < S {
						break
					}
					assign[i] = 0
					i++
				}
				if i == H {
					break
				}
			}
		}
	}
	// Phase 2: larger BALANCED tables (where a plan that stops early misses the ideal share by
	// more than one): every non-empty subset of slot ids 1..6 as the active set, H up to 48,
	// the remainder of the even share given to the first or to the last slots.
	maxH2 := 48
	for mask := 1; mask < 64; mask++ {
		var active []multiraft.SlotID
		for b := 0; b < 6; b++ {
			if mask&(1<<b) != 0 {
				active = append(active, multiraft.SlotID(b+1))
			}
		}
		for H := len(active); H <= maxH2; H++ {
			for variant := 0; variant < 2; variant++ {
				table := NewHashSlotTable(uint16(H), 1)
				base, rem := H/len(active), H%len(active)
				h := 0
				for i, sl := range active {
					n := base
					if (variant == 0 && i < rem) || (variant == 1 && i >= len(active)-rem) {
						n++
					}
					for k := 0; k < n; k++ {
						table.assignment[h] = sl
						h++
					}
				}
				cases++
				used := map[multiraft.SlotID]bool{}
				for _, sl := range active {
					used[sl] = true
				}
				for ns := 1; ns <= 7; ns++ {
					if used[multiraft.SlotID(ns)] {
						continue
					}
					parts := append(append([]multiraft.SlotID(nil), active...), multiraft.SlotID(ns))
					if !wkvCheckPlan(t, "add(balanced)", table, ComputeAddSlotPlan(table, multiraft.SlotID(ns)), parts, 1) {
						return
					}
				}
				if len(active) > 1 {
					for _, rm := range active {
						var rest []multiraft.SlotID
						for _, sl := range active {
							if sl != rm {
								rest = append(rest, sl)
							}
						}
						if !wkvCheckPlan(t, "remove(balanced)", table, ComputeRemoveSlotPlan(table, rm), rest, 1) {
							return
						}
					}
				}
				if !wkvCheckPlan(t, "rebalance(balanced)", table, ComputeRebalancePlan(table), active, 0) {
					return
				}
			}
		}
	}
	fmt.Printf("WKV-CASES %d\n", cases)
}
