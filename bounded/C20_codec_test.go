package hashslot

// Bounded stand-in for C20's "survives encode/decode unchanged including active
// migrations" (never counted as proved): every table with H hash slots over slot ids
// 1..S, every subset of hash slots under migration, every phase, a spread of versions.
// Injected with `go test -overlay`; nothing is written into /repo.

import (
	"fmt"
	"os"
	"testing"

	"github.com/WuKongIM/WuKongIM/pkg/slot/multiraft"
)

// wkvSameTable compares field by field (nil and empty slices / maps are the same table).
func wkvSameTable(a, b *HashSlotTable) bool {
	if a.version != b.version || a.hashSlotCount != b.hashSlotCount || len(a.assignment) != len(b.assignment) || len(a.migrations) != len(b.migrations) {
		return false
	}
	for i := range a.assignment {
		if a.assignment[i] != b.assignment[i] {
			return false
		}
	}
	for k, v := range a.migrations {
		if w, ok := b.migrations[k]; !ok || w != v {
			return false
		}
	}
	return true
}

func TestWkvBoundedCodec(t *testing.T) {
	maxH, maxS := 3, 2
	if os.Getenv("VERIF_TIER") == "thorough" || os.Getenv("WKV_TIER") == "thorough" {
		maxH, maxS = 4, 3
	}
	phases := []MigrationPhase{PhaseSnapshot, PhaseDelta, PhaseSwitching, PhaseDone}
	versions := []uint64{0, 1, 255, 256, 1 << 32, ^uint64(0)}
	cases := 0
	for h := 0; h <= maxH; h++ {
		// assignments: h digits base maxS (slot ids 1..maxS)
		total := 1
		for i := 0; i < h; i++ {
			total *= maxS
		}
		for code := 0; code < total; code++ {
			assign := make([]multiraft.SlotID, h)
			c := code
			for i := 0; i < h; i++ {
				assign[i] = multiraft.SlotID(c%maxS + 1)
				c /= maxS
			}
			// migrations: per hash slot none or one of the phases (5^h)
			mtotal := 1
			for i := 0; i < h; i++ {
				mtotal *= len(phases) + 1
			}
			for mcode := 0; mcode < mtotal; mcode++ {
				for _, ver := range versions {
					table := &HashSlotTable{version: ver, hashSlotCount: uint16(h), assignment: append([]multiraft.SlotID(nil), assign...), migrations: map[uint16]HashSlotMigration{}}
					m := mcode
					for i := 0; i < h; i++ {
						p := m % (len(phases) + 1)
						m /= len(phases) + 1
						if p == 0 {
							continue
						}
						target := assign[i]%multiraft.SlotID(maxS) + 1
						if target == assign[i] {
							target = assign[i] + 1
						}
						table.migrations[uint16(i)] = HashSlotMigration{HashSlot: uint16(i), Source: assign[i], Target: target, Phase: phases[p-1]}
					}
					cases++
					want := table.Clone()
					data := table.Encode()
					if !wkvSameTable(table, want) {
						t.Fatalf("Encode changed the table: %+v -> %+v", want, table)
					}
					got, err := DecodeHashSlotTable(data)
					if err != nil {
						t.Fatalf("decode(encode(t)) failed for %+v: %v", want, err)
					}
					if !wkvSameTable(got, want) {
						t.Fatalf("decode(encode(t)) differs: want %+v got %+v", want, got)
					}
					if data2 := got.Encode(); string(data2) != string(data) {
						t.Fatalf("re-encoding the decoded table gives different bytes for %+v", want)
					}
				}
			}
		}
	}
	fmt.Printf("WKV-CASES %d\n", cases)
}
