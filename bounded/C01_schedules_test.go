package replication

import (
	"context"
	"errors"
	"fmt"
	"testing"
	"time"

	ch "github.com/WuKongIM/WuKongIM/pkg/channel"
	channelstore "github.com/WuKongIM/WuKongIM/pkg/channel/store"
)

type wkvC01Harness struct {
	local  ch.NodeID
	stores map[ch.NodeID]ReplicaStore
	down   map[ch.NodeID]bool
	// beforeProbe runs before a probe is answered (used to race a stale leader)
	beforeProbe func(recoveryProbeQuery)
}

var errWkvC01Down = errors.New("verif: voter down")

func (h *wkvC01Harness) submitRecoveryProbe(_ context.Context, q recoveryProbeQuery, complete func(ProbeResult, error)) error {
	if h.beforeProbe != nil {
		h.beforeProbe(q)
	}
	if h.down[q.Voter] {
		complete(ProbeResult{}, errWkvC01Down)
		return nil
	}
	loaded, err := h.stores[q.Voter].Load(context.Background(), LoadBatch{Items: []LoadRequest{{ChannelKey: q.ChannelKey, ChannelID: q.ChannelID, ProbeIndexes: q.Indexes}}})
	if err != nil || len(loaded.Items) != 1 || loaded.Items[0].Err != nil {
		if err == nil && len(loaded.Items) == 1 {
			err = loaded.Items[0].Err
		}
		complete(ProbeResult{}, err)
		return nil
	}
	req := ProbeRequest{ChannelKey: q.ChannelKey, ChannelID: q.ChannelID, Leader: q.Leader, Follower: q.Voter, Indexes: q.Indexes}
	complete(ProbeResult{Proof: probeProofFor(req), State: loaded.Items[0].State, Entries: loaded.Items[0].Entries}, nil)
	return nil
}

func (h *wkvC01Harness) submitRecoveryFetch(_ context.Context, q recoveryFetchQuery, complete func(FetchResult, error)) error {
	if h.down[q.Donor] {
		complete(FetchResult{}, errWkvC01Down)
		return nil
	}
	fetched := h.stores[q.Donor].Fetch(context.Background(), []FetchRange{{ChannelKey: q.ChannelKey, ChannelID: q.ChannelID, Expected: q.Expected, From: q.From, Through: q.Through, Previous: q.Previous, MaxBytes: q.MaxBytes}})
	if len(fetched) != 1 || fetched[0].Err != nil {
		var err error
		if len(fetched) == 1 {
			err = fetched[0].Err
		}
		complete(FetchResult{}, err)
		return nil
	}
	req := FetchRequest{ChannelKey: q.ChannelKey, ChannelID: q.ChannelID, Leader: q.Leader, Follower: q.Donor, Expected: q.Expected, From: q.From, Through: q.Through, Previous: q.Previous, MaxBytes: q.MaxBytes}
	complete(FetchResult{Proof: fetchProofFor(req), State: fetched[0].State, Proposals: fetched[0].Proposals}, nil)
	return nil
}

func (h *wkvC01Harness) submitLocal(_ context.Context, p durableProposal, complete func(durabilityCompletion)) error {
	h.submit(h.local, p, complete)
	return nil
}

func (h *wkvC01Harness) submitReplica(_ context.Context, voter ch.NodeID, p durableProposal, complete func(durabilityCompletion)) error {
	h.submit(voter, p, complete)
	return nil
}

func (h *wkvC01Harness) submit(voter ch.NodeID, p durableProposal, complete func(durabilityCompletion)) {
	if h.down[voter] {
		complete(durabilityCompletion{outcome: ch.AppendOutcomeUnknown, err: errWkvC01Down})
		return
	}
	results := h.stores[voter].Sync(context.Background(), []Mutation{{ChannelKey: p.channelKey, ChannelID: p.channelID, Manifest: p.manifest, Records: p.records, Committed: p.committed}})
	if len(results) != 1 {
		complete(durabilityCompletion{outcome: ch.AppendOutcomeUnknown, err: ch.ErrLogConflict})
		return
	}
	complete(durabilityCompletion{outcome: results[0].Outcome, err: results[0].Err})
}

func wkvC01State(t *testing.T, s ReplicaStore, a Authority) ReplicaState {
	loaded, err := s.Load(context.Background(), LoadBatch{Items: []LoadRequest{{ChannelKey: a.Key, ChannelID: a.ChannelID}}})
	if err != nil || len(loaded.Items) != 1 || loaded.Items[0].Err != nil {
		t.Fatalf("load: %v %+v", err, loaded)
	}
	return loaded.Items[0].State
}


// TestWkvBoundedRecoverySchedules: N=3 voters, write quorum 2, leader 1 commits m in {1,2}
// proposals while at most one voter is unreachable, then a new leader (term+1) is installed
// on voter 2 or 3 while at most one voter (never the new leader) is unreachable. Whenever
// the install succeeds (the channel becomes writable) every acknowledged entry must still
// be in the new leader's log at its acknowledged sequence with the same identity.
// A schedule that breaks this is reported as "WKV-FINDING <key>: <what>" (the check decides
// whether it is a listed known finding); everything else is counted.
func TestWkvBoundedRecoverySchedules(t *testing.T) {
	voters := []ch.NodeID{1, 2, 3}
	cases := 0
	downSets := [][]ch.NodeID{nil, {1}, {2}, {3}}
	for m := 1; m <= 2; m++ {
		for _, d1 := range downSets {
			if len(d1) == 1 && d1[0] == 1 {
				continue // the committing leader is up
			}
			for _, newLeader := range []ch.NodeID{2, 3} {
				for _, d2 := range downSets {
				for _, race := range []bool{false, true} {
					if len(d2) == 1 && d2[0] == newLeader {
						continue
					}
					if race && len(d2) == 1 && d2[0] == 1 {
						continue // the stale leader must answer the probes to race them
					}
					cases++
					key := fmt.Sprintf("entries=%d commit-unreachable=%v new-leader=%d install-unreachable=%v", m, d1, newLeader, d2)
					if race {
						key += " stale-leader-appends-between-probe-rounds"
					}
					stores := map[ch.NodeID]ReplicaStore{}
					for _, v := range voters {
						s, err := NewStoreAdapter(StoreAdapterConfig{Factory: channelstore.NewMemoryFactory(), MaxBatchItems: 4, MaxBatchBytes: 1 << 20})
						if err != nil {
							t.Fatal(err)
						}
						stores[v] = s
					}
					var harnesses = map[ch.NodeID]*wkvC01Harness{}
					mk := func(local ch.NodeID, down []ch.NodeID) *quorumLog {
						h := &wkvC01Harness{local: local, stores: stores, down: map[ch.NodeID]bool{}}
						harnesses[local] = h
						for _, d := range down {
							h.down[d] = true
						}
						l, err := newQuorumLog(quorumLogConfig{Local: local, Store: stores[local], Recovery: h, Durability: h,
							RecoveryTimeout: time.Minute, RecoveryPageBytes: 64 << 10, MaxChannels: 8, MaxVoters: 3,
							MaxProposalRecords: 256, MaxProposalBytes: 64 << 10, MaxRetainedCommands: 16})
						if err != nil {
							t.Fatal(err)
						}
						return l
					}
					a1 := Authority{Key: "1:c01", ChannelID: ch.ChannelID{ID: "c01", Type: 1}, ID: AuthorityID{ChannelEpoch: 3, LeaderTerm: 5, FenceVersion: 7}, Leader: 1, Voters: voters, WriteQuorum: 2}
					l1 := mk(1, d1)
					if _, err := l1.Install(context.Background(), a1); err != nil {
						t.Fatalf("%s: install of the first leader: %v", key, err)
					}
					var last uint64
					var tail ReplicaState
					for i := 0; i < m; i++ {
						receipt, err := l1.Commit(context.Background(), Proposal{Key: a1.Key, Expected: a1.ID, CommandID: ch.CommandID{31: byte(9 + i)},
							Records: []ch.Record{{ID: uint64(91 + i), Epoch: 3, FromUID: "s", ClientMsgNo: fmt.Sprintf("c-%d", 91+i), Payload: []byte("p"), SizeBytes: 1, ServerTimestampMS: int64(91 + i)}}})
						if err != nil {
							t.Fatalf("%s: commit %d with a reachable quorum: %v", key, i, err)
						}
						last = receipt.Last
					}
					tail = wkvC01State(t, stores[1], a1)
					a2 := a1
					a2.ID.LeaderTerm = 6
					a2.Leader = newLeader
					l2 := mk(newLeader, d2)
					if race {
						// the not yet fenced old leader appends its next proposal on its own disk
						// only, after it answered the frontier round and before the identity page
						fired := false
						harnesses[newLeader].beforeProbe = func(q recoveryProbeQuery) {
							if fired || q.Voter != 1 || len(q.Indexes) == 0 {
								return
							}
							fired = true
							h1 := harnesses[1]
							saved := h1.down
							h1.down = map[ch.NodeID]bool{2: true, 3: true}
							_, _ = l1.Commit(context.Background(), Proposal{Key: a1.Key, Expected: a1.ID, CommandID: ch.CommandID{31: 77},
								Records: []ch.Record{{ID: 777, Epoch: 3, FromUID: "s", ClientMsgNo: "c-777", Payload: []byte("stale"), SizeBytes: 5, ServerTimestampMS: 777}}})
							h1.down = saved
						}
					}
					_, err := l2.Install(context.Background(), a2)
					if err != nil {
						continue // not writable: nothing was lost
					}
					after := wkvC01State(t, stores[newLeader], a1)
					if after.LEO < last {
						fmt.Printf("WKV-FINDING %s: install succeeded but the new leader's log ends at %d, below the acknowledged sequence %d\n", key, after.LEO, last)
						continue
					}
					if after.LEO == tail.LEO && after.TailIdentity.Digest != tail.TailIdentity.Digest {
						fmt.Printf("WKV-FINDING %s: install succeeded but the entry at the acknowledged sequence %d was replaced\n", key, last)
					}
				}
				}
			}
		}
	}
	fmt.Printf("WKV-CASES %d\n", cases)
}
