#!/bin/bash
# Must-pass corpus: behaviour-preserving refactors; each must leave its property's check silent (exit 0).
# Usage: selftest/benign.sh [Cxx ...]
cd "$(dirname "$0")/.."
fail=0
for p in selftest/benign/*.patch; do
  name=$(basename "$p" .patch); prop=${name%%-*}
  if [ $# -gt 0 ] && ! [[ " $* " == *" $prop "* ]]; then continue; fi
  if ! git -C /repo apply --check "$PWD/$p" 2>/dev/null; then echo "SKIP $name (patch does not apply)"; fail=1; continue; fi
  git -C /repo apply "$PWD/$p"
  out=$(WKV_NO_EVIDENCE=1 ./check "$prop" 2>&1); rc=$?
  git -C /repo apply -R "$PWD/$p"
  if [ $rc -eq 0 ]; then echo "ok   $name: silent"; else echo "FALSE-ALARM $name: $(echo "$out" | grep '^FAILED\|^PROBLEM' | head -2 | cut -c1-120 | tr '\n' ';')"; fail=1; fi
done
exit $fail
