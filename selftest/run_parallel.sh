#!/bin/bash
# Must-fail corpus, run in parallel lanes: each lane has its own scratch worktree of /repo (HEAD, with
# the committed contract files) and handles whole properties, so no two runs of one property overlap.
# Usage: selftest/run_parallel.sh [lanes] [Cxx ...]
cd "$(dirname "$0")/.."
. ./env.sh
lanes=${1:-4}; shift
props="$*"
if [ -z "$props" ]; then props=$(ls selftest/mutants/*.patch | xargs -n1 basename | sed 's/-.*//' | sort -u | tr '\n' ' '); fi
lane_run() {
  k=$1; shift
  wt=/tmp/st_lane$k
  git -C /repo worktree remove --force $wt >/dev/null 2>&1
  git -C /repo worktree add -q --detach $wt HEAD || exit 2
  for prop in "$@"; do
    for p in selftest/mutants/$prop-*.patch; do
      name=$(basename "$p" .patch)
      if ! git -C $wt apply --check "$PWD/$p" 2>/dev/null; then echo "SKIP $name (patch does not apply)"; continue; fi
      git -C $wt apply "$PWD/$p"
      out=$(WKV_NO_EVIDENCE=1 ./bin/wkv verify --property "$prop" --tier quick --seed 0 --repo $wt --verif /tmp/st_verif$k 2>&1); rc=$?
      git -C $wt apply -R "$PWD/$p"
      if echo "$out" | grep -q "load_failure"; then echo "INVALID $name: mutant does not compile"
      elif [ $rc -eq 1 ] && echo "$out" | grep -q "^VIOLATION property=$prop replay=.*/bounded_" && ! echo "$out" | grep -q '^FAILED'; then echo "ok   $name: bounded harness"
      elif [ $rc -eq 1 ] && echo "$out" | grep -q "^VIOLATION property=$prop" && ! echo "$out" | grep -q '^FAILED'; then echo "ok?  $name: engine problems only: $(echo "$out" | grep '^PROBLEM' | head -1 | cut -c1-160)"
      elif [ $rc -eq 1 ] && echo "$out" | grep -q "^VIOLATION property=$prop"; then echo "ok   $name: $(echo "$out" | grep '^FAILED' | head -1 | cut -c8-100)"
      else echo "MISS $name: check exited $rc without violation"; fi
    done
  done
  git -C /repo worktree remove --force $wt >/dev/null 2>&1
}
i=0
declare -a buckets
for prop in $props; do buckets[$((i % lanes))]+="$prop "; i=$((i+1)); done
for k in $(seq 0 $((lanes-1))); do
  rm -rf /tmp/st_verif$k; mkdir -p /tmp/st_verif$k
  for d in specs bounded known_findings.jsonl; do cp -r $d /tmp/st_verif$k/; done
  lane_run $k ${buckets[$k]} > /tmp/st_lane$k.log 2>&1 &
done
wait
cat /tmp/st_lane*.log | sort
rm -rf /tmp/st_verif* /tmp/st_lane*.log
