#!/bin/bash
# Must-fail corpus: every mutant must make its property's check exit 1 (DESIGN.md 3.11).
# Usage: selftest/run.sh [Cxx ...]   (applies each patch to /repo, runs ./check, reverts)
cd "$(dirname "$0")/.."
fail=0
for p in selftest/mutants/*.patch; do
  name=$(basename "$p" .patch); prop=${name%%-*}
  if [ $# -gt 0 ] && ! [[ " $* " == *" $prop "* ]]; then continue; fi
  if ! git -C /repo apply --check "$PWD/$p" 2>/dev/null; then echo "SKIP $name (patch does not apply)"; fail=1; continue; fi
  git -C /repo apply "$PWD/$p"
  out=$(WKV_NO_EVIDENCE=1 ./check "$prop" 2>&1); rc=$?
  git -C /repo apply -R "$PWD/$p"
  if echo "$out" | grep -q "load_failure"; then echo "INVALID $name: mutant does not compile"; fail=1
  elif [ $rc -eq 1 ] && echo "$out" | grep -q "^VIOLATION property=$prop replay=.*/bounded_" && ! echo "$out" | grep -q '^FAILED'; then
    echo "ok   $name: $(echo "$out" | grep -c '^VIOLATION') violation(s) from the bounded harness: $(echo "$out" | grep '^VIOLATION' | head -1 | sed 's/.*bounded_//' | cut -c1-100)"
  elif [ $rc -eq 1 ] && echo "$out" | grep -q "^VIOLATION property=$prop" && ! echo "$out" | grep -q '^FAILED'; then
    # only engine problems (contract drift, clause errors): the mutant changed the shape the contract
    # is written against - a legitimate alarm, but make sure the same problem is absent on the unchanged tree
    echo "ok?  $name: flagged by engine problems only: $(echo "$out" | grep '^PROBLEM' | head -1 | cut -c1-160)"
  elif [ $rc -eq 1 ] && echo "$out" | grep -q "^VIOLATION property=$prop"; then
    echo "ok   $name: $(echo "$out" | grep -c '^VIOLATION') violation(s): $(echo "$out" | grep '^FAILED' | head -2 | cut -c8-90 | tr '\n' ';')"
  else
    echo "MISS $name: check exited $rc without violation"; fail=1
  fi
done
exit $fail
