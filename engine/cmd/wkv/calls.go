package main

// Calls: builtins, library models, modular (contract) calls and inlining
// (DESIGN.md 3.5 "Calls", "Frames").

import (
	"strconv"
	"os"
	"fmt"
	"go/token"
	"go/types"
	"sort"
	"strings"

	"golang.org/x/tools/go/ssa"
)

func (x *Exec) call(fr *Frame, st *State, val ssa.Value, cc *ssa.CallCommon, pos token.Pos) V {
	return x.callCommon(fr, st, val, cc, pos)
}

func resultType(cc *ssa.CallCommon) types.Type {
	sig := cc.Signature()
	switch sig.Results().Len() {
	case 0:
		return types.NewTuple()
	case 1:
		return sig.Results().At(0).Type()
	}
	return sig.Results()
}

func (x *Exec) packResults(t types.Type, rs []V) V {
	if tup, ok := t.(*types.Tuple); ok {
		if tup.Len() == 0 {
			return V{T: t}
		}
		return V{T: t, Tup: rs}
	}
	if len(rs) == 1 {
		return rs[0]
	}
	return V{T: t}
}

// sourceCallOrdinals numbers the calls of each callee name in source order.
func sourceCallOrdinals(fn *ssa.Function) map[*ssa.CallCommon]int {
	type site struct {
		cc   *ssa.CallCommon
		pos  token.Pos
		b, i int
	}
	byName := map[string][]site{}
	for _, b := range fn.Blocks {
		for idx, in := range b.Instrs {
			ci, ok := in.(ssa.CallInstruction)
			if !ok {
				continue
			}
			cc := ci.Common()
			name := ""
			if cc.IsInvoke() {
				name = cc.Method.Name()
			} else {
				switch c := cc.Value.(type) {
				case *ssa.Function:
					name = funcKey(c)
				case *ssa.MakeClosure:
					name = funcKey(c.Fn.(*ssa.Function))
				case *ssa.UnOp:
					// a closure variable captured by another closure lives in a cell: the call
					// loads it; when the cell is assigned exactly one closure, that is the callee
					if mc := uniqueClosureOfCell(c); mc != nil {
						name = funcKey(mc.Fn.(*ssa.Function))
					}
				}
			}
			if name == "" && !cc.IsInvoke() {
				name = funcValueName(cc.Value)
			}
			if name == "" {
				continue
			}
			byName[name] = append(byName[name], site{cc, in.Pos(), b.Index, idx})
		}
	}
	out := map[*ssa.CallCommon]int{}
	for _, sites := range byName {
		sort.Slice(sites, func(i, j int) bool {
			if sites[i].pos != sites[j].pos {
				return sites[i].pos < sites[j].pos
			}
			if sites[i].b != sites[j].b {
				return sites[i].b < sites[j].b
			}
			return sites[i].i < sites[j].i
		})
		for k, s := range sites {
			out[s.cc] = k + 1
		}
	}
	return out
}

// funcValueName: the name under which a call through a function value of unknown origin is
// logged: the struct field it was read from (`req.Build(...)` and `f := c.commitFunc; f(...)`
// are "Build" and "commitFunc") or the parameter that holds it. Empty when there is no such name.
func funcValueName(v ssa.Value) string {
	switch c := v.(type) {
	case *ssa.Field:
		if st, ok := c.X.Type().Underlying().(*types.Struct); ok {
			return st.Field(c.Field).Name()
		}
	case *ssa.UnOp:
		if c.Op == token.MUL {
			if fa, ok := c.X.(*ssa.FieldAddr); ok {
				if pt, ok := fa.X.Type().Underlying().(*types.Pointer); ok {
					if st, ok := pt.Elem().Underlying().(*types.Struct); ok {
						return st.Field(fa.Field).Name()
					}
				}
			}
		}
	case *ssa.Parameter:
		return c.Name()
	}
	return ""
}

// uniqueClosureOfCell: for a load `*cell` where cell is a local variable's cell that is
// assigned exactly once, with a closure, that closure (nil otherwise). Cells captured by
// other closures are only read there when they are assigned once before.
func uniqueClosureOfCell(ld *ssa.UnOp) *ssa.MakeClosure {
	if ld.Op != token.MUL {
		return nil
	}
	a, ok := ld.X.(*ssa.Alloc)
	if !ok {
		// inside a closure: the cell is a captured variable of the enclosing function
		if fv, isFV := ld.X.(*ssa.FreeVar); isFV {
			a = cellOfFreeVar(fv)
		}
	}
	if a == nil || a.Referrers() == nil {
		return nil
	}
	var only *ssa.MakeClosure
	n := 0
	for _, ref := range *a.Referrers() {
		if stv, ok := ref.(*ssa.Store); ok && stv.Addr == a {
			n++
			only, _ = stv.Val.(*ssa.MakeClosure)
		}
	}
	if n == 1 {
		return only
	}
	return nil
}

// cellOfFreeVar: the enclosing function's cell (Alloc) a closure's free variable is bound
// to, when the closure is created exactly once there.
func cellOfFreeVar(fv *ssa.FreeVar) *ssa.Alloc {
	fn := fv.Parent()
	if fn == nil || fn.Parent() == nil {
		return nil
	}
	idx := -1
	for i, v := range fn.FreeVars {
		if v == fv {
			idx = i
		}
	}
	if idx < 0 {
		return nil
	}
	var cell *ssa.Alloc
	n := 0
	for _, b := range fn.Parent().Blocks {
		for _, in := range b.Instrs {
			if mc, ok := in.(*ssa.MakeClosure); ok && mc.Fn == fn {
				n++
				if idx < len(mc.Bindings) {
					cell, _ = mc.Bindings[idx].(*ssa.Alloc)
				}
			}
		}
	}
	if n == 1 {
		return cell
	}
	return nil
}

// callRec is one entry of the per-frame ghost call log (typestate obligations,
// DESIGN.md 3.7): which calls were executed, under which guard, in which order,
// with which arguments and results.
type callRec struct {
	guard  string
	args   []V
	res    V
	seq    int
	callee *ssa.Function // nil for interface and function-value calls
	pos    token.Pos
}

func (x *Exec) callCommon(fr *Frame, st *State, val ssa.Value, cc *ssa.CallCommon, pos token.Pos) V {
	rt := resultType(cc)
	x.curCall = cc
	var args []V
	for _, a := range cc.Args {
		args = append(args, x.value(fr, a))
	}
	// name under which at-call clauses and the call log refer to this call
	name := ""
	var callee *ssa.Function
	var bindings []V
	var recv V
	switch {
	case cc.IsInvoke():
		recv = x.value(fr, cc.Value)
		name = cc.Method.Name()
	default:
		switch c := cc.Value.(type) {
		case *ssa.Builtin:
			return x.builtin(fr, st, c, cc, args, rt, pos)
		case *ssa.Function:
			callee = c
		case *ssa.MakeClosure:
			cv := x.value(fr, c)
			callee, bindings = cv.Cl.Fn, cv.Cl.Bindings
		default:
			fv := x.value(fr, cc.Value)
			if fv.Cl != nil {
				callee, bindings = fv.Cl.Fn, fv.Cl.Bindings
			} else if ld, ok := cc.Value.(*ssa.UnOp); ok {
				// the closure was stored into its variable's cell (it is captured by another
				// closure); the cell is assigned once, so the load yields that closure
				if mc := uniqueClosureOfCell(ld); mc != nil {
					if cv, ok := fr.vals[mc]; ok && cv.Cl != nil {
						callee, bindings = cv.Cl.Fn, cv.Cl.Bindings
					}
				}
			}
		}
		if callee != nil {
			name = funcKey(callee)
		}
	}
	nameOnly := false
	if name == "" {
		// the callee's identity is known statically (a closure variable of the enclosing
		// function) but its captured state is not available here: the call is logged and
		// checked against at-call clauses, its effects are unknown
		if ld, ok := cc.Value.(*ssa.UnOp); ok {
			if mc := uniqueClosureOfCell(ld); mc != nil {
				name = funcKey(mc.Fn.(*ssa.Function))
				nameOnly = true
			}
		}
	}
	if name == "" {
		if dt, lk := x.dispatchTableOf(cc.Value); dt != nil {
			return x.dispatchCall(fr, st, dt, lk, rt, pos)
		}
		// calling a nil function value panics
		if fv := x.value(fr, cc.Value); fv.Cl == nil && fv.S != "" {
			x.check(fr, st, pos, "nil-func-call", "(not (= "+fv.S+" 0))")
		}
	}
	dynNamed := false
	if name == "" {
		if _, ok := x.pureFieldFunc(cc); !ok {
			if n := funcValueName(cc.Value); n != "" {
				// a function value read from a field or handed in as a parameter: its body is
				// unknown, but the call itself is logged (at-call clauses, called/argof/retof)
				if fv := x.value(fr, cc.Value); fv.Cl == nil {
					name, dynNamed = n, true
				}
			}
		}
	}
	if name == "" {
		// a function-valued struct field declared pure in a contract file
		// (`func field:T.f` + `pure`): arbitrary result, no effect on the heap
		if what, ok := x.pureFieldFunc(cc); ok {
			x.trust("function-valued field " + what + " is assumed pure (arbitrary result, no effect on the heap)")
			return x.freshOfType(st, rt, "fieldfn")
		}
		x.havocAll(st, fmt.Sprintf("call through a function value of unknown origin in %s", funcKey(fr.fn)))
		return x.freshOfType(st, rt, "dyn")
	}
	logArgs := args
	if cc.IsInvoke() {
		logArgs = append([]V{recv}, args...)
	}
	var rec *callRec
	ord := 0
	if fr.callOrd != nil && x.specMode == 0 {
		// ordinals follow source order (k-th call of this callee in the function text), not
		// the order in which blocks happen to be visited
		if fr.callOrdOf == nil {
			fr.callOrdOf = sourceCallOrdinals(fr.fn)
		}
		ord = fr.callOrdOf[cc]
		if ord == 0 {
			fr.callOrd[name]++
			ord = 1000 + fr.callOrd[name]
		}
		if fr.callLog == nil {
			fr.callLog = map[string]*callRec{}
		}
		fr.callSeq++
		rec = &callRec{guard: st.guard, args: logArgs, seq: fr.callSeq, callee: callee, pos: pos}
		fr.callLog[fmt.Sprintf("%s#%d", name, ord)] = rec
	}
	x.atCall(fr, st, name, ord, callee, logArgs, pos)
	var res V
	if dynNamed {
		x.havocAll(st, fmt.Sprintf("call through the function value %s in %s (its body is unknown)", name, funcKey(fr.fn)))
		res = x.freshOfType(st, rt, "dyn")
		if rec != nil {
			rec.res = res
		}
		return res
	}
	if nameOnly {
		x.havocAll(st, fmt.Sprintf("call of closure %s from inside another closure (its captured state is not available there)", name))
		res = x.freshOfType(st, rt, "dyn")
		if rec != nil {
			rec.res = res
		}
		return res
	}
	if cc.IsInvoke() {
		res = x.invoke(fr, st, cc, recv, args, rt, pos)
	} else {
		res = x.callFunc(fr, st, callee, bindings, args, rt, pos)
	}
	if rec != nil {
		rec.res = res
	}
	return res
}

// contractFor finds the contract for a function key. Contracts about functions outside
// /repo are scoped to the /repo package whose contract file declares them: the one
// declared by the package of the function under verification wins, otherwise any
// unscoped one.
func (x *Exec) contractFor(key string) *Contract {
	if x.topFn != nil && x.topFn.Pkg != nil {
		if c := x.cs.Funcs[key+"@"+x.topFn.Pkg.Pkg.Path()]; c != nil {
			return c
		}
	}
	if len(x.stack) > 0 {
		for i := len(x.stack) - 1; i >= 0; i-- {
			if f := x.stack[i]; f != nil && f.Pkg != nil {
				if c := x.cs.Funcs[key+"@"+f.Pkg.Pkg.Path()]; c != nil {
					return c
				}
			}
		}
	}
	return x.cs.Funcs[key]
}

// pureFieldFunc: the call goes through a function-valued struct field that a contract
// file declares pure (`func field:T.f` + `pure`).
func (x *Exec) pureFieldFunc(cc *ssa.CallCommon) (string, bool) {
	// a function-typed parameter the enclosing function's contract declares pure
	if prm, ok := cc.Value.(*ssa.Parameter); ok && prm.Parent() != nil {
		if c := x.cs.Funcs[fullFuncKey(prm.Parent())]; c != nil {
			for _, n := range c.PureParams {
				if n == prm.Name() {
					return "parameter " + prm.Name() + " of " + funcKey(prm.Parent()), true
				}
			}
		}
	}
	ld, ok := cc.Value.(*ssa.UnOp)
	if !ok || ld.Op != token.MUL {
		return "", false
	}
	fa, ok := ld.X.(*ssa.FieldAddr)
	if !ok {
		return "", false
	}
	pt, ok := fa.X.Type().Underlying().(*types.Pointer)
	if !ok {
		return "", false
	}
	n, ok := pt.Elem().(*types.Named)
	if !ok || n.Obj().Pkg() == nil {
		return "", false
	}
	stT, ok := n.Underlying().(*types.Struct)
	if !ok {
		return "", false
	}
	what := n.Obj().Name() + "." + stT.Field(fa.Field).Name()
	if c := x.cs.Funcs[n.Obj().Pkg().Path()+".field:"+what]; c != nil && c.Pure {
		return what, true
	}
	return "", false
}

func (x *Exec) invoke(fr *Frame, st *State, cc *ssa.CallCommon, recv V, args []V, rt types.Type, pos token.Pos) V {
	// error.Error() and friends: pure
	name := cc.Method.Name()
	full := cc.Method.FullName()
	// the interface value was made from a concrete value on this very path: the method is
	// the concrete type's. A port contract that says something about the result (or carries
	// ghost effects) stays in charge; one that only bounds the effects does not hide the body.
	pc := x.portContract(cc.Method)
	if recv.Dyn != nil && recv.Dyn.T != nil && (pc == nil || (len(pc.Ensures) == 0 && len(pc.Assigns) == 0)) {
		if m := x.prog.methodOf(recv.Dyn.T, cc.Method); m != nil {
			return x.callFunc(fr, st, m, nil, append([]V{*recv.Dyn}, args...), rt, pos)
		}
	}
	if pc != nil {
		all := append([]V{recv}, args...)
		return x.callContract(fr, st, pc, nil, cc.Method, all, rt, pos)
	}
	if name == "Error" && cc.Method.Type().(*types.Signature).Params().Len() == 0 {
		return x.freshOfType(st, rt, "errstr")
	}
	if cc.Method.Pkg() != nil && cc.Method.Pkg().Path() == "context" {
		x.trust("context.Context methods are pure (arbitrary results, no heap effect)")
		return x.freshOfType(st, rt, "ctx")
	}
	x.havocAll(st, fmt.Sprintf("interface method call %s without a port contract", full))
	return x.freshOfType(st, rt, "inv")
}

// portContract finds a contract declared for an interface method:
// key "(Iface).Method" in the interface's package.
func (x *Exec) portContract(m *types.Func) *Contract {
	sig := m.Type().(*types.Signature)
	if sig.Recv() == nil || m.Pkg() == nil {
		return nil
	}
	rt := sig.Recv().Type()
	if n, ok := rt.(*types.Named); ok {
		return x.contractFor(m.Pkg().Path() + ".(" + n.Obj().Name() + ")." + m.Name())
	}
	return nil
}

func (x *Exec) inStack(fn *ssa.Function) bool {
	for _, f := range x.stack {
		if f == fn {
			return true
		}
	}
	return false
}

func (x *Exec) callFunc(fr *Frame, st *State, callee *ssa.Function, bindings []V, args []V, rt types.Type, pos token.Pos) V {
	key := fullFuncKey(callee)
	if callee.Origin() != nil {
		key = fullFuncKey(callee.Origin())
	}
	// library models first
	if v, ok := x.libCall(fr, st, key, callee, args, rt, pos); ok {
		return v
	}
	if v, ok := x.abstractCall(st, callee, args, rt); ok {
		return v
	}
	c := x.contractFor(key)
	if c != nil && c.Inline != "always" && (callee.Blocks == nil || c.Trusted || c.Inline == "never" || len(c.Ensures) > 0 || c.HasAssigns) && !(len(x.stack) > 0 && x.stack[0] == callee && false) {
		x.ccBindings = bindings
		defer func() { x.ccBindings = nil }()
		return x.callContract(fr, st, c, callee, nil, args, rt, pos)
	}
	x.prog.ensureBuilt(callee)
	if callee.Blocks == nil || !x.prog.inRepo(pkgPathOfKey(callee, x.prog)) {
		// standard library / third-party code is never inlined: modelled (lib.go), contracted, pure by list, or unknown
		if x.prog.knownPure(key) {
			x.trust("library function " + key + " is treated as pure: result unconstrained, no heap effect")
			return x.freshOfType(st, rt, "ext")
		}
		x.havocAll(st, "call to external function "+key+" without contract")
		return x.freshOfType(st, rt, "ext")
	}
	if x.inStack(callee) || len(x.stack) >= x.maxDepth || (!(c != nil && c.Inline == "always") && !x.inlinable(callee, c)) {
		// not inlined: havoc what the callee may write, results unconstrained
		mods, all := x.funcMods(callee)
		if all {
			x.havocAll(st, "call to "+key+" (not inlined: recursive, too large or with uncontracted loops; unknown effects)")
		} else {
			x.note("call to %s not inlined (recursive, too large or with uncontracted loops): its results are unconstrained and the heap components it may write are havocked", key)
			for _, m := range mods {
				x.havocModTarget(st, m)
			}
			na := x.s.declare("alloc", "Int")
			x.assume("true", "(>= "+na+" "+st.alloc+")")
			st.alloc = na
		}
		return x.freshOfType(st, rt, "opaque")
	}
	// inline
	sub := &Frame{fn: callee, params: args, bindings: bindings, contract: c, safety: fr.safety, depth: fr.depth + 1}
	g := st.guard
	rs, out := x.execFunc(sub, st)
	if out == nil {
		// callee never returns normally (always panics)
		x.assume(g, "false")
		return x.freshOfType(st, rt, "noret")
	}
	*st = *out
	// paths on which the callee panicked do not continue
	x.assume(g, out.guard)
	st.guard = g
	// A helper without a contract is part of its caller's text as far as clauses about calls
	// go: what it called is entered in the caller's call log under the same names, unless
	// the caller has a call of that name and ordinal itself (extracting a few lines into a
	// helper then leaves at-call, latch and called/argof/retof clauses meaningful).
	if c == nil && len(sub.callLog) > 0 {
		if fr.callLog == nil {
			fr.callLog = map[string]*callRec{}
		}
		own := fr.callOrdOf
		if own == nil {
			own = sourceCallOrdinals(fr.fn)
			fr.callOrdOf = own
		}
		var merged []string
		ownKeys := map[string]bool{}
		for cc, ord := range own {
			n := ""
			if cc.IsInvoke() {
				n = cc.Method.Name()
			} else {
				switch cv := cc.Value.(type) {
				case *ssa.Function:
					n = funcKey(cv)
				case *ssa.MakeClosure:
					n = funcKey(cv.Fn.(*ssa.Function))
				default:
					n = funcValueName(cc.Value)
				}
			}
			if n != "" {
				ownKeys[fmt.Sprintf("%s#%d", n, ord)] = true
			}
		}
		for k, rec := range sub.callLog {
			if ownKeys[k] {
				continue
			}
			if _, dup := fr.callLog[k]; dup {
				continue
			}
			fr.callSeq++
			fr.callLog[k] = &callRec{guard: rec.guard, args: rec.args, res: rec.res, seq: fr.callSeq, callee: rec.callee, pos: rec.pos}
			merged = append(merged, k)
		}
		// at-call clauses of the caller about such a call are evaluated here, when the
		// helper has returned, under the path condition of the call itself and with the
		// call's own arguments (the caller's locals are those of the helper's call site)
		sort.Strings(merged)
		for _, k := range merged {
			if fr.contract == nil || fr.contract.Calls[k] == nil {
				continue
			}
			rec := fr.callLog[k]
			i := strings.LastIndex(k, "#")
			ord, err := strconv.Atoi(k[i+1:])
			if err != nil {
				continue
			}
			at := st.clone()
			at.guard = rec.guard
			x.atCall(fr, at, k[:i], ord, rec.callee, rec.args, rec.pos)
		}
	}
	return x.packResults(rt, rs)
}

// abstractCall: the contract under verification lists the callee under abstract-calls.
// The call is then an uninterpreted function of its arguments, one per result: the same
// arguments give the same results wherever the call appears (code or specification).
// Accepted only for callees whose parameters and results are values (no pointers, slices,
// maps, interfaces other than error results) and that write no heap component, so that the
// result cannot depend on anything but the arguments.
func (x *Exec) abstractCall(st *State, callee *ssa.Function, args []V, rt types.Type) (V, bool) {
	if len(x.abstract) == 0 || x.topFn == nil {
		return V{}, false
	}
	name := funcKey(callee)
	if callee.Pkg != nil && callee.Pkg != x.topFn.Pkg {
		name = callee.Pkg.Pkg.Name() + "." + name
	}
	if !x.abstract[name] {
		return V{}, false
	}
	sig := callee.Signature
	valueType := func(t types.Type, result bool) bool {
		switch u := t.Underlying().(type) {
		case *types.Basic:
			return true
		case *types.Interface:
			return result && types.Identical(t, types.Universe.Lookup("error").Type())
		case *types.Struct:
			for i := 0; i < u.NumFields(); i++ {
				if _, ok := u.Field(i).Type().Underlying().(*types.Basic); !ok {
					return false
				}
			}
			return true
		}
		return false
	}
	if sig.Recv() != nil {
		panic(contractError("abstract-calls: " + name + " is a method"))
	}
	for i := 0; i < sig.Params().Len(); i++ {
		if !valueType(sig.Params().At(i).Type(), false) {
			panic(contractError("abstract-calls: parameter of " + name + " is not a plain value"))
		}
	}
	for i := 0; i < sig.Results().Len(); i++ {
		if !valueType(sig.Results().At(i).Type(), true) {
			panic(contractError("abstract-calls: result of " + name + " is not a plain value or error"))
		}
	}
	x.prog.ensureBuilt(callee)
	if mods, all := x.funcMods(callee); all || len(mods) > 0 {
		// writes may still be confined to memory the callee allocates itself: accepted when
		// the callee's own contract proves `assigns nothing`
		cc := x.cs.Funcs[fullFuncKey(callee)]
		if cc == nil || cc.Trusted || !cc.HasAssigns || len(cc.Assigns) > 0 {
			panic(contractError("abstract-calls: " + name + " has heap effects and no proved `assigns nothing`"))
		}
	}
	var sorts, terms []string
	for _, a := range args {
		sorts = append(sorts, x.s.sortOf(a.T))
		terms = append(terms, a.S)
	}
	x.trust("calls to " + name + " are abstracted to a deterministic function of the arguments (checked: value parameters, no heap writes)")
	var rs []V
	for i := 0; i < sig.Results().Len(); i++ {
		t := sig.Results().At(i).Type()
		uf := fmt.Sprintf("abs_%s_%d", sanitize(fullFuncKey(callee)), i)
		x.s.declareUF(uf, "("+strings.Join(sorts, " ")+")", x.s.sortOf(t))
		term := x.define("abs", x.s.sortOf(t), "("+uf+" "+strings.Join(terms, " ")+")")
		if inv := x.s.typeInv(t, term); inv != "" && inv != "true" {
			x.assume("true", inv)
		}
		rs = append(rs, V{T: t, S: term})
	}
	return x.packResults(rt, rs), true
}

func pkgPathOfKey(fn *ssa.Function, p *Program) string {
	if tp := p.pkgOfFunc(fn); tp != nil {
		return tp.Path()
	}
	return ""
}

// inlinable: small, loop-free (or with invariants for every loop) callees are
// inlined; everything else is treated as opaque.
func (x *Exec) inlinable(fn *ssa.Function, c *Contract) bool {
	n := 0
	for _, b := range fn.Blocks {
		n += len(b.Instrs)
	}
	if n > 400 {
		return false
	}
	loops := findLoops(fn)
	for _, li := range loops {
		if c == nil || c.Loops[li.ordinal] == nil {
			// a helper without a contract that took over a loop of the function under
			// verification: inlined, with that loop's invariants as candidates (orphanInvs)
			if c == nil && len(x.orphanInvs) > 0 {
				continue
			}
			return false
		}
	}
	return true
}

// atCall processes the caller's at-call clauses for the k-th call of `name`.
func (x *Exec) atCall(fr *Frame, st *State, name string, ord int, callee *ssa.Function, args []V, pos token.Pos) {
	if fr.contract == nil || x.specMode > 0 || ord == 0 {
		return
	}
	atc := fr.contract.Calls[fmt.Sprintf("%s#%d", name, ord)]
	if atc == nil {
		return
	}
	if fr.seenCalls == nil {
		fr.seenCalls = map[string]bool{}
	}
	fr.seenCalls[fmt.Sprintf("%s#%d", name, ord)] = true
	for i, a := range atc.Asserts {
		oname := fmt.Sprintf("%s#at-call.%s.%d.%d", funcKey(fr.fn), name, ord, i+1)
		if a.Tag != "" {
			oname = fmt.Sprintf("%s#%s@%s.%d", funcKey(fr.fn), a.Tag, name, ord)
		}
		// a clause that can no longer be evaluated against the code (it names a variable or
		// a call that is gone) is an obligation that fails, with the reason attached - the
		// function's other obligations are still generated
		f, src := func() (f, src string) {
			defer func() {
				if r := recover(); r != nil {
					ce, ok := r.(contractError)
					if !ok {
						panic(r)
					}
					f, src = "false", a.Src+"  [clause cannot be evaluated against the current code: "+string(ce)+"]"
				}
			}()
			return x.evalClauseCall(fr, a, st, callee, args), a.Src
		}()
		x.addObl(&Obligation{Name: oname, Kind: "assert", Tag: a.Tag,
			Func: funcKey(fr.fn), Pos: x.prog.pos(pos), Guard: st.guard, Formula: f, Src: src})
		if f != "false" {
			x.assume(st.guard, f)
		}
	}
	for _, a := range atc.Assumes {
		f := x.evalClauseCall(fr, a, st, callee, args)
		x.note("at-call assume in %s before %s: %s", funcKey(fr.fn), name, a.Src)
		x.assume(st.guard, f)
	}
}

// callContract performs a modular call: assert requires, havoc assigns,
// assume ensures.
func (x *Exec) callContract(fr *Frame, st *State, c *Contract, callee *ssa.Function, method *types.Func, args []V, rt types.Type, pos token.Pos) V {
	if x.calledContracts == nil {
		x.calledContracts = map[string]bool{}
	}
	ck := c.Pkg + "." + c.Key
	if c.Scope != "" {
		ck += "@" + c.Scope
	}
	x.calledContracts[ck] = true
	names := x.paramNames(callee, method)
	env := &Env{x: x, pkg: x.prog.typesPkg(c.Pkg), names: map[string]V{}, cur: st, old: st, contract: c}
	for i, n := range names {
		if i < len(args) && n != "" && n != "_" {
			env.names[n] = args[i]
		}
	}
	if callee != nil && len(callee.FreeVars) > 0 && len(x.ccBindings) == len(callee.FreeVars) {
		// a closure's contract names its captured variables
		env.cells = map[string]V{}
		for i, fv := range callee.FreeVars {
			b := x.ccBindings[i]
			if _, ok := b.T.Underlying().(*types.Pointer); ok {
				env.cells[fv.Name()] = b
			} else {
				env.names[fv.Name()] = b
			}
		}
	}
	x.ccBindings = nil
	for i, r := range c.Requires {
		f := env.evalBool(r.E)
		x.addObl(&Obligation{Name: fmt.Sprintf("%s#pre.%s.%d@%s", funcKey(fr.fn), c.Key, i+1, x.prog.posShort(pos, fr.fn)), Kind: "pre", Tag: r.Tag,
			Func: funcKey(fr.fn), Pos: x.prog.pos(pos), Guard: st.guard, Formula: f, Src: r.Src})
		x.assume(st.guard, f)
	}
	pre := st.clone()
	// frame
	if c.HasAssigns || c.Pure {
		// every assignable place is the one denoted in the pre-state of the call
		preEnv := *env
		preEnv.cur = pre
		preEnv.old = pre
		for _, a := range c.Assigns {
			x.havocAssign(&preEnv, st, a)
		}
	} else if callee != nil && callee.Blocks != nil {
		mods, all := x.funcMods(callee)
		if all {
			x.havocAll(st, "contract of "+c.Key+" has no assigns clause and its body has unknown effects")
		} else {
			for _, m := range mods {
				x.havocModTarget(st, m)
			}
		}
	} else {
		x.havocAll(st, "contract of "+c.Key+" has no assigns clause")
	}
	na := x.s.declare("alloc", "Int")
	x.assume("true", "(>= "+na+" "+st.alloc+")")
	st.alloc = na
	res := x.freshOfType(st, rt, "res_"+sanitize(c.Key))
	env2 := &Env{x: x, pkg: env.pkg, names: env.names, cells: env.cells, cur: st, old: pre, contract: c}
	if res.Tup != nil {
		env2.results = res.Tup
	} else if _, isTup := rt.(*types.Tuple); !isTup {
		env2.results = []V{res}
	}
	env2.bindResultNames(callee, method)
	for _, e := range c.Ensures {
		f, skip := func() (f string, skip bool) {
			defer func() {
				if r := recover(); r != nil {
					if ce, ok := r.(contractError); ok && strings.HasPrefix(string(ce), "call-log:") {
						skip = true
						return
					}
					panic(r)
				}
			}()
			return env2.evalBool(e.E), false
		}()
		if !skip {
			x.assume(st.guard, f)
		}
	}
	return res
}

func (x *Exec) paramNames(callee *ssa.Function, method *types.Func) []string {
	var names []string
	if callee != nil {
		for _, p := range callee.Params {
			names = append(names, p.Name())
		}
		if len(names) == 0 && callee.Signature != nil {
			sig := callee.Signature
			if sig.Recv() != nil {
				names = append(names, sig.Recv().Name())
			}
			for i := 0; i < sig.Params().Len(); i++ {
				names = append(names, sig.Params().At(i).Name())
			}
		}
		return names
	}
	sig := method.Type().(*types.Signature)
	names = append(names, "self")
	for i := 0; i < sig.Params().Len(); i++ {
		n := sig.Params().At(i).Name()
		if n == "" || n == "_" {
			// unnamed interface-method parameter: argN (N counts from 0 without the receiver)
			n = fmt.Sprintf("arg%d", i)
		}
		names = append(names, n)
	}
	return names
}

type modTarget struct {
	key string
	t   types.Type
	// targeted havoc: root value defined outside the loop, static field path
	root ssa.Value
	path []int
	// fields: for a struct key (H:T), the top-level fields that may be written; nil means
	// the whole object (unknown which fields)
	fields map[int]bool
}

// mergeMod records that key may be written; field >= 0 restricts the write to one
// top-level field of a struct object, field < 0 means the whole object.
func mergeMod(acc map[string]modTarget, key string, t types.Type, field int) {
	m, ok := acc[key]
	if !ok {
		m = modTarget{key: key, t: t}
		if field >= 0 {
			m.fields = map[int]bool{field: true}
		}
		acc[key] = m
		return
	}
	if m.fields == nil {
		return // already whole
	}
	if field < 0 {
		m.fields = nil
	} else {
		m.fields[field] = true
	}
	acc[key] = m
}

// mergeModTarget merges a callee's mod target (with its field set) into acc.
func mergeModTarget(acc map[string]modTarget, m modTarget) {
	if m.fields == nil {
		mergeMod(acc, m.key, m.t, -1)
		return
	}
	for f := range m.fields {
		mergeMod(acc, m.key, m.t, f)
	}
}

// topField: for a store address that is a field path into a struct object, the index of
// the outermost field (the field of the root object); -1 when the whole object is written.
func topField(addr ssa.Value) int {
	switch a := addr.(type) {
	case *ssa.FieldAddr:
		if f := topField(a.X); f >= 0 {
			return f
		}
		return a.Field
	case *ssa.IndexAddr:
		if _, ok := a.X.Type().Underlying().(*types.Pointer); ok {
			return topField(a.X)
		}
	}
	return -1
}

// restoreUnwrittenFields: after havocking a struct key because of a callee that writes
// only some top-level fields, every other field of every object keeps its value.
func (x *Exec) restoreUnwrittenFields(st *State, m modTarget, old string) {
	if m.fields == nil || !strings.HasPrefix(m.key, "H:") {
		return
	}
	stT, ok := m.t.Underlying().(*types.Struct)
	if !ok {
		return
	}
	nw := st.heap[m.key]
	for j := 0; j < stT.NumFields(); j++ {
		if m.fields[j] {
			continue
		}
		acc := x.s.accessor(m.t, j)
		x.assume("true", fmt.Sprintf("(forall ((fr! Int)) (! (= (%s (select %s fr!)) (%s (select %s fr!))) :pattern ((select %s fr!))))", acc, nw, acc, old, nw))
	}
}

// havocModTarget havocs one callee mod target, keeping the fields it cannot write.
func (x *Exec) havocModTarget(st *State, m modTarget) {
	old := x.heapGet(st, m.key, m.t)
	x.havocKeyCall(st, m.key, m.t)
	x.restoreUnwrittenFields(st, m, old)
}

// funcMods returns the heap keys a function (and its static callees) may write.
func (x *Exec) funcMods(fn *ssa.Function) ([]modTarget, bool) {
	seen := map[*ssa.Function]bool{}
	acc := map[string]modTarget{}
	all := x.collectMods(fn, nil, seen, acc, 0)
	var out []modTarget
	for _, k := range sortedKeys(acc) {
		out = append(out, acc[k])
	}
	return out, all
}

func (x *Exec) collectMods(fn *ssa.Function, blocks map[*ssa.BasicBlock]bool, seen map[*ssa.Function]bool, acc map[string]modTarget, depth int) bool {
	if blocks == nil {
		if seen[fn] {
			return false
		}
		seen[fn] = true
	}
	x.prog.ensureBuilt(fn)
	all := false
	add := func(key string, t types.Type) { mergeMod(acc, key, t, -1) }
	for _, b := range fn.Blocks {
		if blocks != nil && !blocks[b] {
			continue
		}
		for _, in := range b.Instrs {
			switch i := in.(type) {
			case *ssa.Store:
				k, t, local := storeKey(i.Addr)
				if local && blocks == nil {
					continue // store to an object allocated by this very call
				}
				mergeMod(acc, k, t, topField(i.Addr))
			case *ssa.MapUpdate:
				mt := i.Map.Type().Underlying().(*types.Map)
				add(heapKeyMapP(mt), mt)
				add(heapKeyMapV(mt), mt)
				add(heapKeyMapL(mt), mt)
			case *ssa.Alloc:
				if blocks != nil {
					t := i.Type().(*types.Pointer).Elem()
					add(heapKeyObj(t), t)
				}
			case *ssa.MakeSlice:
				if blocks != nil {
					et := i.Type().Underlying().(*types.Slice).Elem()
					add(heapKeySlice(et), et)
				}
			case *ssa.MakeMap:
				if blocks != nil {
					mt := i.Type().Underlying().(*types.Map)
					add(heapKeyMapP(mt), mt)
					add(heapKeyMapL(mt), mt)
				}
			case *ssa.Convert:
				if sl, ok := i.Type().Underlying().(*types.Slice); ok && blocks != nil {
					add(heapKeySlice(sl.Elem()), sl.Elem())
				}
			case *ssa.Slice:
				if pt, ok := i.X.Type().Underlying().(*types.Pointer); ok && blocks != nil {
					if arr, ok := pt.Elem().Underlying().(*types.Array); ok {
						add(heapKeySlice(arr.Elem()), arr.Elem())
					}
				}
			case ssa.CallInstruction:
				cc := i.Common()
				if _, isDefer := in.(*ssa.Defer); isDefer {
					if cal := cc.StaticCallee(); cal != nil && strings.HasPrefix(fullFuncKey(cal), "sync.") {
						continue
					}
				}
				if _, isGo := in.(*ssa.Go); isGo {
					continue
				}
				if cc.IsInvoke() {
					if c := x.portContract(cc.Method); c != nil && (c.HasAssigns || c.Pure) && len(c.Assigns) == 0 {
						continue
					}
					if cc.Method.Name() == "Error" || (cc.Method.Pkg() != nil && cc.Method.Pkg().Path() == "context") {
						continue
					}
					if c := x.portContract(cc.Method); c != nil && len(c.Assigns) > 0 {
						if ms, ok := x.globalAssignKeys(c); ok {
							for _, m := range ms {
								mergeModTarget(acc, m)
							}
							continue
						}
					}
					if os.Getenv("WKV_DEBUG_MODS") != "" {
						fmt.Fprintf(os.Stderr, "mods: unknown effects: interface call %s in %s\n", cc.Method.FullName(), funcKey(fn))
					}
					all = true
					continue
				}
				switch callee := cc.Value.(type) {
				case *ssa.Builtin:
					switch callee.Name() {
					case "append":
						if sl, ok := cc.Args[0].Type().Underlying().(*types.Slice); ok {
							add(heapKeySlice(sl.Elem()), sl.Elem())
						}
					case "copy":
						if sl, ok := cc.Args[0].Type().Underlying().(*types.Slice); ok {
							add(heapKeySlice(sl.Elem()), sl.Elem())
						}
					case "delete", "clear":
						if mt, ok := cc.Args[0].Type().Underlying().(*types.Map); ok {
							add(heapKeyMapP(mt), mt)
							add(heapKeyMapL(mt), mt)
							add(heapKeyMapV(mt), mt)
						} else if sl, ok := cc.Args[0].Type().Underlying().(*types.Slice); ok {
							add(heapKeySlice(sl.Elem()), sl.Elem())
						}
					}
				default:
					var cf *ssa.Function
					switch c2 := cc.Value.(type) {
					case *ssa.Function:
						cf = c2
					case *ssa.MakeClosure:
						cf = c2.Fn.(*ssa.Function)
					}
					if cf == nil {
						if _, ok := x.pureFieldFunc(cc); ok {
							continue
						}
						if dt, _ := x.dispatchTableOf(cc.Value); dt != nil {
							if x.dispatchMods(dt, acc) {
								all = true
							}
							continue
						}
						if os.Getenv("WKV_DEBUG_MODS") != "" {
							fmt.Fprintf(os.Stderr, "mods: unknown effects: dynamic call in %s\n", funcKey(fn))
						}
						all = true
						continue
					}
					key := fullFuncKey(cf)
					if cf.Origin() != nil {
						key = fullFuncKey(cf.Origin())
					}
					if ms, ok := x.libMods(key, cc); ok {
						for _, m := range ms {
							mergeModTarget(acc, m)
						}
						continue
					}
					if c := x.contractFor(key); c != nil && (c.HasAssigns || c.Pure) {
						if len(c.Assigns) > 0 {
							// conservatively: the types of the assigned places are unknown here
							ms, a2 := x.contractModKeys(c, cf)
							if a2 {
								all = true
							}
							for _, m := range ms {
								mergeModTarget(acc, m)
							}
						}
						continue
					}
					x.prog.ensureBuilt(cf)
					if cf.Blocks == nil || !x.prog.inRepo(pkgPathOfKey(cf, x.prog)) {
						if !x.prog.knownPure(key) {
							if os.Getenv("WKV_DEBUG_MODS") != "" {
								fmt.Fprintf(os.Stderr, "mods: unknown effects: external %s in %s\n", key, funcKey(fn))
							}
							all = true
						}
						continue
					}
					if depth > 8 {
						if os.Getenv("WKV_DEBUG_MODS") != "" {
							fmt.Fprintf(os.Stderr, "mods: unknown effects: depth in %s\n", funcKey(fn))
						}
						all = true
						continue
					}
					if x.collectMods(cf, nil, seen, acc, depth+1) {
						all = true
					}
				}
			}
		}
	}
	return all
}

// contractModKeys: heap keys an assigns clause may touch, derived from the
// callee body when available.
func (x *Exec) contractModKeys(c *Contract, cf *ssa.Function) ([]modTarget, bool) {
	if cf == nil || cf.Blocks == nil {
		// no body: the assigns clause itself, when it names whole heap components only
		env := &Env{x: x, pkg: x.prog.typesPkg(c.Pkg), names: map[string]V{}, contract: c}
		var out []modTarget
		for _, a := range c.Assigns {
			e, err := parseCExpr(a)
			if err != nil {
				return nil, true
			}
			call, ok := e.(*CCall)
			if !ok {
				return nil, true
			}
			id, ok := call.Fun.(*CIdent)
			if !ok {
				return nil, true
			}
			args := call.Args
			switch id.Name {
			case "pointee":
				args = args[1:]
			case "anyobj", "anyelems":
			default:
				return nil, true
			}
			for _, ta := range args {
				t, ok := env.tryType(ta)
				if !ok {
					return nil, true
				}
				if id.Name == "anyelems" {
					out = append(out, modTarget{key: heapKeySlice(t), t: t})
				} else {
					out = append(out, modTarget{key: heapKeyObj(t), t: t})
				}
			}
		}
		return out, false
	}
	if cf != nil && cf.Blocks != nil {
		seen := map[*ssa.Function]bool{}
		acc := map[string]modTarget{}
		// analyse the body ignoring its own contract
		all := x.collectMods(cf, nil, seen, acc, 1)
		var out []modTarget
		for _, k := range sortedKeys(acc) {
			out = append(out, acc[k])
		}
		return out, all
	}
	return nil, true
}

// storeKey determines which heap array a store through addr writes.
func storeKey(addr ssa.Value) (string, types.Type, bool) {
	switch a := addr.(type) {
	case *ssa.FieldAddr:
		return storeKey(a.X)
	case *ssa.IndexAddr:
		switch u := a.X.Type().Underlying().(type) {
		case *types.Slice:
			return heapKeySlice(u.Elem()), u.Elem(), false
		case *types.Pointer:
			return storeKey(a.X)
		}
	case *ssa.Alloc:
		t := a.Type().(*types.Pointer).Elem()
		k, ht := heapKeyForObj(t)
		return k, ht, true
	case *ssa.Global:
		t := a.Type().(*types.Pointer).Elem()
		return heapKeyGlobal(a.Pkg.Pkg.Path() + "." + a.Name()), t, false
	}
	t := addr.Type().Underlying().(*types.Pointer).Elem()
	k, ht := heapKeyForObj(t)
	return k, ht, false
}

// loopMods: heap targets written inside a loop.
func (x *Exec) loopMods(fr *Frame, li *loopInfo) ([]modTarget, bool) {
	seen := map[*ssa.Function]bool{fr.fn: true}
	acc := map[string]modTarget{}
	all := x.collectMods(fr.fn, li.blocks, seen, acc, 0)
	var out []modTarget
	for _, k := range sortedKeys(acc) {
		out = append(out, acc[k])
	}
	return out, all
}

func (x *Exec) havocKey(st *State, key string, t types.Type) {
	so := x.s.heapSort(key, t)
	n := x.s.declare("hv_"+shortHeapKey(key), so)
	if strings.HasPrefix(key, "ML:") {
		x.assume("true", fmt.Sprintf("(forall ((r Int)) (! (>= (select %s r) 0) :pattern ((select %s r))))", n, n))
		x.assume("true", fmt.Sprintf("(= (select %s 0) 0)", n))
	}
	if strings.HasPrefix(key, "MP:") {
		mk := t.(*types.Map)
		x.assume("true", fmt.Sprintf("(= (select %s 0) ((as const (Array %s Bool)) false))", n, x.s.sortOf(mk.Key())))
	}
	st.heap[key] = n
}

// havocKeyCall havocs a heap component because of a call's effects; locals whose
// address never escapes keep their contents.
func (x *Exec) havocKeyCall(st *State, key string, t types.Type) {
	old := x.heapGet(st, key, t)
	x.havocKey(st, key, t)
	x.restoreProtected(st, key, old)
}

func (x *Exec) havocTarget(fr *Frame, st *State, m modTarget) {
	x.havocKey(st, m.key, m.t)
}

// havocAssign havocs one place of an assigns clause (evaluated in env).
func (x *Exec) havocAssign(env *Env, st *State, src string) {
	e, err := parseCExpr(src)
	if err != nil {
		panic(fmt.Sprintf("bad assigns place %q: %v", src, err))
	}
	// forms: *p (whole object), p.f (field), s[*] written as elems(s), m (map contents) written as map(m)
	if call, ok := e.(*CCall); ok {
		if id, ok := call.Fun.(*CIdent); ok {
			switch id.Name {
			case "elems":
				v := env.eval(call.Args[0])
				et := v.T.Underlying().(*types.Slice).Elem()
				key := heapKeySlice(et)
				sarr := x.heapGet(st, key, et)
				fresh := x.s.declare("hv_elems", "(Array Int "+x.s.sortOf(et)+")")
				x.heapSet(st, key, et, "(store "+sarr+" (s_base "+v.S+") "+fresh+")")
				return
			case "mapof":
				v := env.eval(call.Args[0])
				mt := v.T.Underlying().(*types.Map)
				for _, k := range []string{heapKeyMapP(mt), heapKeyMapV(mt)} {
					arr := x.heapGet(st, k, mt)
					inner := "Bool"
					if strings.HasPrefix(k, "MV:") {
						inner = x.s.sortOf(mt.Elem())
					}
					fresh := x.s.declare("hv_map", "(Array "+x.s.sortOf(mt.Key())+" "+inner+")")
					x.heapSet(st, k, mt, "(store "+arr+" "+v.S+" "+fresh+")")
				}
				ml := x.heapGet(st, heapKeyMapL(mt), mt)
				fl := x.s.declare("hv_maplen", "Int")
				x.assume("true", "(>= "+fl+" 0)")
				x.heapSet(st, heapKeyMapL(mt), mt, "(store "+ml+" "+v.S+" "+fl+")")
				return
			case "anyobj", "anyelems":
				// anyobj(T): any heap object of type T; anyelems(T): the elements of any []T
				t, ok := env.tryType(call.Args[0])
				if !ok {
					panic(contractError(fmt.Sprintf("assigns %s: unknown type", src)))
				}
				if id.Name == "anyobj" {
					x.havocKeyCall(st, heapKeyObj(t), t)
				} else {
					x.havocKeyCall(st, heapKeySlice(t), t)
				}
				return
			case "pointee":
				// pointee(x, T1, .., Tn): the object x points to when the interface value x
				// holds a *Ti (what encoding/json's Decode(v) writes: memory reachable from v)
				v := env.eval(call.Args[0])
				for _, ta := range call.Args[1:] {
					t, ok := env.tryType(ta)
					if !ok {
						panic(contractError(fmt.Sprintf("assigns %s: unknown type", src)))
					}
					pt := types.NewPointer(t)
					_, unbox := x.boxFuncs(pt)
					key := heapKeyObj(t)
					arr := x.heapGet(st, key, t)
					fresh := x.s.declare("hv_pointee", x.s.sortOf(t))
					x.assume("true", x.valueInv(st, t, fresh))
					x.heapSet(st, key, t, ite(fmt.Sprintf("(= (itag %s) %d)", v.S, x.typeID(pt)), "(store "+arr+" ("+unbox+" "+v.S+") "+fresh+")", arr))
				}
				return
			case "all":
				x.havocAll(st, "assigns all")
				return
			}
		}
	}
	pl := env.evalPlace(e)
	if pl == nil {
		panic(fmt.Sprintf("assigns clause %q does not denote a place", src))
	}
	t := pl.Type()
	fresh := x.s.declare("hv", x.s.sortOf(t))
	x.assume("true", x.valueInv(st, t, fresh))
	x.storePlace(st, pl, fresh)
}

// builtins -------------------------------------------------------------------------

func (x *Exec) builtin(fr *Frame, st *State, b *ssa.Builtin, cc *ssa.CallCommon, args []V, rt types.Type, pos token.Pos) V {
	intT := types.Typ[types.Int]
	switch b.Name() {
	case "len":
		a := args[0]
		switch u := a.T.Underlying().(type) {
		case *types.Slice:
			return V{T: intT, S: x.fromMathInt(intT, "(s_len "+a.S+")")}
		case *types.Basic:
			return V{T: intT, S: x.fromMathInt(intT, x.strLen(a.S))}
		case *types.Map:
			return V{T: intT, S: x.fromMathInt(intT, x.define("maplen", "Int", x.mapLen(st, a)))}
		case *types.Array:
			return V{T: intT, S: x.s.intLit(intT, bigInt(u.Len()))}
		case *types.Pointer:
			if arr, ok := u.Elem().Underlying().(*types.Array); ok {
				return V{T: intT, S: x.s.intLit(intT, bigInt(arr.Len()))}
			}
		case *types.Chan:
			return x.freshOfType(st, intT, "chanlen")
		}
	case "cap":
		a := args[0]
		switch u := a.T.Underlying().(type) {
		case *types.Slice:
			return V{T: intT, S: x.fromMathInt(intT, "(s_cap "+a.S+")")}
		case *types.Array:
			return V{T: intT, S: x.s.intLit(intT, bigInt(u.Len()))}
		}
		return x.freshOfType(st, intT, "cap")
	case "append":
		return x.appendOp(fr, st, args[0], args[1], rt)
	case "copy":
		return x.copyOp(fr, st, args[0], args[1])
	case "delete":
		x.mapDelete(st, args[0], args[1])
		return V{T: rt}
	case "min", "max":
		r := args[0]
		for _, a := range args[1:] {
			var c string
			if b.Name() == "min" {
				c = x.binop(fr, st, token.LSS, a, r, types.Typ[types.Bool], pos).S
			} else {
				c = x.binop(fr, st, token.GTR, a, r, types.Typ[types.Bool], pos).S
			}
			r = V{T: r.T, S: x.define("mm", x.s.sortOf(r.T), ite(c, a.S, r.S))}
		}
		return r
	case "panic":
		return V{T: rt}
	case "print", "println":
		return V{T: rt}
	case "clear":
		a := args[0]
		if mt, ok := a.T.Underlying().(*types.Map); ok {
			mp := x.heapGet(st, heapKeyMapP(mt), mt)
			ml := x.heapGet(st, heapKeyMapL(mt), mt)
			x.heapSet(st, heapKeyMapP(mt), mt, "(ite (= "+a.S+" 0) "+mp+" (store "+mp+" "+a.S+" ((as const (Array "+x.s.sortOf(mt.Key())+" Bool)) false)))")
			x.heapSet(st, heapKeyMapL(mt), mt, "(store "+ml+" "+a.S+" 0)")
			return V{T: rt}
		}
	case "ssa:wrapnilchk":
		return args[0]
	}
	x.note("builtin %s not modelled (result unconstrained)", b.Name())
	return x.freshOfType(st, rt, "bi")
}

func bigInt(n int64) *bigIntT { return newBig(n) }

// appendOp models append(s, t...) following Go: in place when capacity
// suffices, otherwise a fresh backing array.
func (x *Exec) appendOp(fr *Frame, st *State, s, t V, rt types.Type) V {
	sl, ok := s.T.Underlying().(*types.Slice)
	if !ok {
		return x.freshOfType(st, rt, "append")
	}
	et := sl.Elem()
	key := heapKeySlice(et)
	var tlen string
	tIsStr := isString(t.T)
	if tIsStr {
		tlen = x.strLen(t.S)
	} else {
		tlen = "(s_len " + t.S + ")"
	}
	n := x.define("an", "Int", "(+ (s_len "+s.S+") "+tlen+")")
	fits := x.define("fits", "Bool", "(<= "+n+" (s_cap "+s.S+"))")
	sarr := x.heapGet(st, key, et)
	fresh := x.newRef(st)
	newCap := x.s.declare("newcap", "Int")
	x.assume("true", "(and (>= "+newCap+" "+n+") (<= "+newCap+" 9223372036854775807))")
	// a slice longer than MaxInt cannot exist (allocation failure is not modelled)
	x.assume(st.guard, "(<= "+n+" 9223372036854775807)")
	// destination header
	dstBase := x.define("ab", "Int", ite(fits, "(s_base "+s.S+")", fresh))
	dstOff := x.define("ao", "Int", ite(fits, "(s_off "+s.S+")", "0"))
	// new contents of the destination backing array: a fresh array constrained pointwise
	na := x.s.declare("arr", "(Array Int "+x.s.sortOf(et)+")")
	oldDst := "(select " + sarr + " " + dstBase + ")"
	srcOld := "(select " + sarr + " (s_base " + s.S + "))"
	var tElem string
	if tIsStr {
		if x.s.strSMT {
			x.s.strBytes = true
			tElem = "(str.to_code (str.at " + t.S + " (- ai! (+ " + dstOff + " (s_len " + s.S + ")))))"
		} else {
			tElem = "(sat " + t.S + " (- ai! (+ " + dstOff + " (s_len " + s.S + "))))"
		}
	} else {
		tElem = "(select (select " + sarr + " (s_base " + t.S + ")) (+ (s_off " + t.S + ") (- ai! (+ " + dstOff + " (s_len " + s.S + ")))))"
	}
	// for index ai!:
	//   in [dstOff, dstOff+len(s))           -> old s element (unchanged when in place)
	//   in [dstOff+len(s), dstOff+n)         -> t element
	//   otherwise                            -> unchanged when in place (fresh: unconstrained)
	body := fmt.Sprintf("(= (select %s ai!) (ite (and (<= (+ %s (s_len %s)) ai!) (< ai! (+ %s %s))) %s (ite %s (select %s ai!) (select %s (+ (s_off %s) (- ai! %s))))))",
		na, dstOff, s.S, dstOff, n, tElem, fits, oldDst, srcOld, s.S, dstOff)
	cond := fmt.Sprintf("(or %s (and (<= %s ai!) (< ai! (+ %s %s))))", fits, dstOff, dstOff, n)
	x.assume(st.guard, fmt.Sprintf("(forall ((ai! Int)) (! (=> %s %s) :pattern ((select %s ai!))))", cond, body, na))
	x.heapSet(st, key, et, "(store "+sarr+" "+dstBase+" "+na+")")
	res := x.define("sl", "Slice", "(mk_slice "+dstBase+" "+dstOff+" "+n+" "+ite(fits, "(s_cap "+s.S+")", newCap)+")")
	return V{T: s.T, S: res}
}

func (x *Exec) copyOp(fr *Frame, st *State, dst, src V) V {
	intT := types.Typ[types.Int]
	sl, ok := dst.T.Underlying().(*types.Slice)
	if !ok {
		return x.freshOfType(st, intT, "copy")
	}
	et := sl.Elem()
	key := heapKeySlice(et)
	var slen string
	srcIsStr := isString(src.T)
	if srcIsStr {
		slen = x.strLen(src.S)
	} else {
		slen = "(s_len " + src.S + ")"
	}
	n := x.define("cn", "Int", ite("(< (s_len "+dst.S+") "+slen+")", "(s_len "+dst.S+")", slen))
	sarr := x.heapGet(st, key, et)
	na := x.s.declare("arr", "(Array Int "+x.s.sortOf(et)+")")
	var sElem string
	if srcIsStr {
		if x.s.strSMT {
			x.s.strBytes = true
			sElem = "(str.to_code (str.at " + src.S + " (- ai! (s_off " + dst.S + "))))"
		} else {
			sElem = "(sat " + src.S + " (- ai! (s_off " + dst.S + ")))"
		}
	} else {
		sElem = "(select (select " + sarr + " (s_base " + src.S + ")) (+ (s_off " + src.S + ") (- ai! (s_off " + dst.S + "))))"
	}
	x.assume(st.guard, fmt.Sprintf("(forall ((ai! Int)) (! (= (select %s ai!) (ite (and (<= (s_off %s) ai!) (< ai! (+ (s_off %s) %s))) %s (select (select %s (s_base %s)) ai!))) :pattern ((select %s ai!))))",
		na, dst.S, dst.S, n, sElem, sarr, dst.S, na))
	x.heapSet(st, key, et, "(ite (= (s_base "+dst.S+") 0) "+sarr+" (store "+sarr+" (s_base "+dst.S+") "+na+"))")
	return V{T: intT, S: x.fromMathInt(intT, n)}
}
