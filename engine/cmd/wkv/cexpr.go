package main

// Contract expression language: lexer, parser and AST (DESIGN.md 3.4).

import (
	"fmt"
	"strings"
	"unicode"
)

type CExpr interface{ String() string }

type (
	CIdent  struct{ Name string }
	CInt    struct{ Val string }
	CStr    struct{ Val string }
	CBin    struct {
		Op   string
		L, R CExpr
	}
	CUn struct {
		Op string
		X  CExpr
	}
	CSel struct {
		X    CExpr
		Name string
	}
	CIndex struct{ X, I CExpr }
	CSlice struct{ X, Lo, Hi CExpr }
	CCall  struct {
		Fun  CExpr
		Args []CExpr
	}
	CQuant struct {
		Forall bool
		Var    string
		Typ    string // optional type name
		Lo, Hi CExpr  // range lo..hi (hi exclusive); nil when ranging over a type
		Body   CExpr
	}
	CIte struct{ C, A, B CExpr }
)

func (e *CIdent) String() string { return e.Name }
func (e *CInt) String() string   { return e.Val }
func (e *CStr) String() string   { return fmt.Sprintf("%q", e.Val) }
func (e *CBin) String() string   { return "(" + e.L.String() + " " + e.Op + " " + e.R.String() + ")" }
func (e *CUn) String() string    { return e.Op + e.X.String() }
func (e *CSel) String() string   { return e.X.String() + "." + e.Name }
func (e *CIndex) String() string { return e.X.String() + "[" + e.I.String() + "]" }
func (e *CSlice) String() string {
	lo, hi := "", ""
	if e.Lo != nil {
		lo = e.Lo.String()
	}
	if e.Hi != nil {
		hi = e.Hi.String()
	}
	return e.X.String() + "[" + lo + ":" + hi + "]"
}
func (e *CCall) String() string {
	var as []string
	for _, a := range e.Args {
		as = append(as, a.String())
	}
	return e.Fun.String() + "(" + strings.Join(as, ", ") + ")"
}
func (e *CQuant) String() string {
	q := "exists"
	if e.Forall {
		q = "forall"
	}
	if e.Lo == nil {
		return fmt.Sprintf("(%s %s %s: %s)", q, e.Var, e.Typ, e.Body)
	}
	return fmt.Sprintf("(%s %s in %s..%s: %s)", q, e.Var, e.Lo, e.Hi, e.Body)
}
func (e *CIte) String() string {
	return "(" + e.C.String() + " ? " + e.A.String() + " : " + e.B.String() + ")"
}

type tok struct {
	kind string // id, int, str, op, eof
	text string
	pos  int
}

func lexC(src string) ([]tok, error) {
	var out []tok
	i := 0
	ops := []string{"<==>", "==>", "&&", "||", "==", "!=", "<=", ">=", "<<", ">>", "&^", "..", "#"}
	for i < len(src) {
		c := src[i]
		switch {
		case c == ' ' || c == '\t' || c == '\n':
			i++
		case unicode.IsLetter(rune(c)) || c == '_':
			j := i
			for j < len(src) && (unicode.IsLetter(rune(src[j])) || unicode.IsDigit(rune(src[j])) || src[j] == '_') {
				j++
			}
			out = append(out, tok{"id", src[i:j], i})
			i = j
		case c >= '0' && c <= '9':
			j := i
			for j < len(src) && (unicode.IsDigit(rune(src[j])) || unicode.IsLetter(rune(src[j])) || src[j] == '_') {
				j++
			}
			out = append(out, tok{"int", src[i:j], i})
			i = j
		case c == '"':
			j := i + 1
			var b strings.Builder
			for j < len(src) && src[j] != '"' {
				if src[j] == '\\' && j+1 < len(src) {
					j++
					switch src[j] {
					case 'n':
						b.WriteByte('\n')
					case 't':
						b.WriteByte('\t')
					default:
						b.WriteByte(src[j])
					}
				} else {
					b.WriteByte(src[j])
				}
				j++
			}
			if j >= len(src) {
				return nil, fmt.Errorf("unterminated string at %d", i)
			}
			out = append(out, tok{"str", b.String(), i})
			i = j + 1
		default:
			matched := false
			for _, op := range ops {
				if strings.HasPrefix(src[i:], op) {
					out = append(out, tok{"op", op, i})
					i += len(op)
					matched = true
					break
				}
			}
			if !matched {
				out = append(out, tok{"op", string(c), i})
				i++
			}
		}
	}
	out = append(out, tok{"eof", "", len(src)})
	return out, nil
}

type cparser struct {
	toks []tok
	p    int
	src  string
}

func parseCExpr(src string) (CExpr, error) {
	toks, err := lexC(src)
	if err != nil {
		return nil, err
	}
	ps := &cparser{toks: toks, src: src}
	e, err := ps.parseExpr()
	if err != nil {
		return nil, fmt.Errorf("%v in %q", err, src)
	}
	if ps.cur().kind != "eof" {
		return nil, fmt.Errorf("unexpected %q at %d in %q", ps.cur().text, ps.cur().pos, src)
	}
	return e, nil
}

func (p *cparser) cur() tok { return p.toks[p.p] }
func (p *cparser) next() tok {
	t := p.toks[p.p]
	if p.p < len(p.toks)-1 {
		p.p++
	}
	return t
}
func (p *cparser) isOp(s string) bool { return p.cur().kind == "op" && p.cur().text == s }
func (p *cparser) isID(s string) bool { return p.cur().kind == "id" && p.cur().text == s }
func (p *cparser) expectOp(s string) error {
	if !p.isOp(s) {
		return fmt.Errorf("expected %q at %d, got %q", s, p.cur().pos, p.cur().text)
	}
	p.next()
	return nil
}

func (p *cparser) parseExpr() (CExpr, error) {
	if p.isQuant() {
		return p.parseQuant()
	}
	return p.parseIff()
}

func (p *cparser) parseQuant() (CExpr, error) {
	q := &CQuant{Forall: p.next().text == "forall"}
	if p.cur().kind != "id" {
		return nil, fmt.Errorf("quantifier variable expected at %d", p.cur().pos)
	}
	q.Var = p.next().text
	if p.isID("in") {
		p.next()
		lo, err := p.parseAdd()
		if err != nil {
			return nil, err
		}
		if err := p.expectOp(".."); err != nil {
			return nil, err
		}
		hi, err := p.parseAdd()
		if err != nil {
			return nil, err
		}
		q.Lo, q.Hi = lo, hi
	} else {
		// forall x T: body
		var ty []string
		for !p.isOp(":") && p.cur().kind != "eof" {
			ty = append(ty, p.next().text)
		}
		q.Typ = strings.Join(ty, "")
	}
	if err := p.expectOp(":"); err != nil {
		return nil, err
	}
	body, err := p.parseExpr()
	if err != nil {
		return nil, err
	}
	q.Body = body
	return q, nil
}

func (p *cparser) parseIff() (CExpr, error) {
	l, err := p.parseImp()
	if err != nil {
		return nil, err
	}
	for p.isOp("<==>") {
		p.next()
		r, err := p.parseImp()
		if err != nil {
			return nil, err
		}
		l = &CBin{"<==>", l, r}
	}
	if p.isOp("?") {
		p.next()
		a, err := p.parseExpr()
		if err != nil {
			return nil, err
		}
		if err := p.expectOp(":"); err != nil {
			return nil, err
		}
		b, err := p.parseExpr()
		if err != nil {
			return nil, err
		}
		return &CIte{l, a, b}, nil
	}
	return l, nil
}

func (p *cparser) parseImp() (CExpr, error) {
	l, err := p.parseOr()
	if err != nil {
		return nil, err
	}
	if p.isOp("==>") {
		p.next()
		var r CExpr
		if p.isQuant() {
			r, err = p.parseQuant()
		} else {
			r, err = p.parseImp()
		}
		if err != nil {
			return nil, err
		}
		return &CBin{"==>", l, r}, nil
	}
	return l, nil
}

func (p *cparser) parseOr() (CExpr, error) {
	l, err := p.parseAnd()
	if err != nil {
		return nil, err
	}
	for p.isOp("||") {
		p.next()
		r, err := p.parseAnd()
		if err != nil {
			return nil, err
		}
		l = &CBin{"||", l, r}
	}
	return l, nil
}

func (p *cparser) parseAnd() (CExpr, error) {
	l, err := p.parseCmp()
	if err != nil {
		return nil, err
	}
	for p.isOp("&&") {
		p.next()
		var r CExpr
		if p.isQuant() {
			r, err = p.parseQuant()
		} else {
			r, err = p.parseCmp()
		}
		if err != nil {
			return nil, err
		}
		l = &CBin{"&&", l, r}
	}
	return l, nil
}

func (p *cparser) parseCmp() (CExpr, error) {
	l, err := p.parseAdd()
	if err != nil {
		return nil, err
	}
	for {
		t := p.cur()
		if t.kind == "op" && (t.text == "==" || t.text == "!=" || t.text == "<" || t.text == "<=" || t.text == ">" || t.text == ">=") {
			p.next()
			r, err := p.parseAdd()
			if err != nil {
				return nil, err
			}
			l = &CBin{t.text, l, r}
			continue
		}
		if t.kind == "id" && t.text == "in" {
			// k in m  (map membership)
			p.next()
			r, err := p.parseAdd()
			if err != nil {
				return nil, err
			}
			l = &CBin{"in", l, r}
			continue
		}
		return l, nil
	}
}

func (p *cparser) parseAdd() (CExpr, error) {
	l, err := p.parseMul()
	if err != nil {
		return nil, err
	}
	for {
		t := p.cur()
		if t.kind == "op" && (t.text == "+" || t.text == "-" || t.text == "|" || t.text == "^") {
			p.next()
			r, err := p.parseMul()
			if err != nil {
				return nil, err
			}
			l = &CBin{t.text, l, r}
			continue
		}
		return l, nil
	}
}

func (p *cparser) parseMul() (CExpr, error) {
	l, err := p.parseUnary()
	if err != nil {
		return nil, err
	}
	for {
		t := p.cur()
		if t.kind == "op" && (t.text == "*" || t.text == "/" || t.text == "%" || t.text == "<<" || t.text == ">>" || t.text == "&" || t.text == "&^") {
			p.next()
			r, err := p.parseUnary()
			if err != nil {
				return nil, err
			}
			l = &CBin{t.text, l, r}
			continue
		}
		return l, nil
	}
}

func (p *cparser) parseUnary() (CExpr, error) {
	t := p.cur()
	if t.kind == "op" && (t.text == "!" || t.text == "-" || t.text == "^" || t.text == "*" || t.text == "#") {
		p.next()
		x, err := p.parseUnary()
		if err != nil {
			return nil, err
		}
		return &CUn{t.text, x}, nil
	}
	return p.parsePostfix()
}

func (p *cparser) parsePostfix() (CExpr, error) {
	x, err := p.parsePrimary()
	if err != nil {
		return nil, err
	}
	for {
		switch {
		case p.isOp("."):
			p.next()
			if p.cur().kind != "id" && p.cur().kind != "int" {
				return nil, fmt.Errorf("selector expected at %d", p.cur().pos)
			}
			x = &CSel{x, p.next().text}
		case p.isOp("["):
			p.next()
			var lo CExpr
			if !p.isOp(":") {
				lo, err = p.parseExpr()
				if err != nil {
					return nil, err
				}
			}
			if p.isOp(":") {
				p.next()
				var hi CExpr
				if !p.isOp("]") {
					hi, err = p.parseExpr()
					if err != nil {
						return nil, err
					}
				}
				if err := p.expectOp("]"); err != nil {
					return nil, err
				}
				x = &CSlice{x, lo, hi}
			} else {
				if err := p.expectOp("]"); err != nil {
					return nil, err
				}
				x = &CIndex{x, lo}
			}
		case p.isOp("("):
			p.next()
			var args []CExpr
			for !p.isOp(")") {
				a, err := p.parseExpr()
				if err != nil {
					return nil, err
				}
				args = append(args, a)
				if p.isOp(",") {
					p.next()
				} else {
					break
				}
			}
			if err := p.expectOp(")"); err != nil {
				return nil, err
			}
			x = &CCall{x, args}
		default:
			return x, nil
		}
	}
}

func (p *cparser) parsePrimary() (CExpr, error) {
	t := p.cur()
	switch t.kind {
	case "id":
		if p.isQuant() {
			return p.parseQuant()
		}
		p.next()
		return &CIdent{t.text}, nil
	case "int":
		p.next()
		return &CInt{t.text}, nil
	case "str":
		p.next()
		return &CStr{t.text}, nil
	case "op":
		if t.text == "(" {
			p.next()
			e, err := p.parseExpr()
			if err != nil {
				return nil, err
			}
			if err := p.expectOp(")"); err != nil {
				return nil, err
			}
			return e, nil
		}
	}
	return nil, fmt.Errorf("unexpected %q at %d", t.text, t.pos)
}

// isQuant: `forall`/`exists` start a quantifier only when followed by a
// variable name (so a parameter called `exists` stays usable).
func (p *cparser) isQuant() bool {
	if !(p.isID("forall") || p.isID("exists")) {
		return false
	}
	return p.p+1 < len(p.toks) && p.toks[p.p+1].kind == "id" && p.toks[p.p+1].text != "in"
}

// singleIndexedSlice returns the expression X when every use of the bound
// variable v inside body as an index has the form X[v] for one and the same X
// (which does not mention v); nil otherwise.
func singleIndexedSlice(body CExpr, v string) CExpr {
	x, ok := indexedSlices(body, v)
	if !ok {
		return nil
	}
	return x
}

// indexedSlices returns the first expression X used as X[v] outside old(...) in
// body, and whether it is the only indexed slice (no other X'[v], no old(..v..)).
func indexedSlices(body CExpr, v string) (CExpr, bool) {
	var found CExpr
	ok := true
	var walk func(e CExpr)
	mentions := func(e CExpr) bool {
		m := false
		var w func(e CExpr)
		w = func(e CExpr) {
			switch n := e.(type) {
			case *CIdent:
				if n.Name == v {
					m = true
				}
			case *CBin:
				w(n.L)
				w(n.R)
			case *CUn:
				w(n.X)
			case *CSel:
				w(n.X)
			case *CIndex:
				w(n.X)
				w(n.I)
			case *CSlice:
				w(n.X)
				if n.Lo != nil {
					w(n.Lo)
				}
				if n.Hi != nil {
					w(n.Hi)
				}
			case *CCall:
				w(n.Fun)
				for _, a := range n.Args {
					w(a)
				}
			case *CQuant:
				if n.Lo != nil {
					w(n.Lo)
					w(n.Hi)
				}
				w(n.Body)
			case *CIte:
				w(n.C)
				w(n.A)
				w(n.B)
			}
		}
		w(e)
		return m
	}
	walk = func(e CExpr) {
		switch n := e.(type) {
		case *CBin:
			walk(n.L)
			walk(n.R)
		case *CUn:
			walk(n.X)
		case *CSel:
			walk(n.X)
		case *CIndex:
			if id, isID := n.I.(*CIdent); isID && id.Name == v && !mentions(n.X) {
				if found == nil {
					found = n.X
				} else if found.String() != n.X.String() {
					ok = false
				}
				walk(n.X)
				return
			}
			walk(n.X)
			walk(n.I)
		case *CSlice:
			walk(n.X)
			if n.Lo != nil {
				walk(n.Lo)
			}
			if n.Hi != nil {
				walk(n.Hi)
			}
		case *CCall:
			if id, isID := n.Fun.(*CIdent); isID && id.Name == "old" {
				// old(X[v]) indexes the old-state slice: keep relative indexing
				if mentions(e) {
					ok = false
				}
				return
			}
			walk(n.Fun)
			for _, a := range n.Args {
				walk(a)
			}
		case *CQuant:
			if n.Var == v {
				return
			}
			if n.Lo != nil {
				walk(n.Lo)
				walk(n.Hi)
			}
			walk(n.Body)
		case *CIte:
			walk(n.C)
			walk(n.A)
			walk(n.B)
		}
	}
	walk(body)
	return found, ok
}
