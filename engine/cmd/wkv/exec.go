package main

// Symbolic execution of go/ssa functions into SMT-LIB (DESIGN.md 3.3, 3.5).
// Block-wise passive form: blocks are processed in reverse post-order with
// back edges cut at loop heads; each block has a reachability guard; joins
// merge heap components and phis with ite.

import (
	"regexp"
	"fmt"
	"go/constant"
	"go/token"
	"go/types"
	"math/big"
	"sort"
	"strings"

	"golang.org/x/tools/go/ssa"
)

type State struct {
	heap  map[string]string
	base  int    // generation of lazily created heap constants
	guard string // reachability condition
	alloc string // allocation counter (Int term)
}

func (st *State) clone() *State {
	n := &State{heap: make(map[string]string, len(st.heap)), base: st.base, guard: st.guard, alloc: st.alloc}
	for k, v := range st.heap {
		n.heap[k] = v
	}
	return n
}

type Closure struct {
	Fn       *ssa.Function
	Bindings []V
}

type Obligation struct {
	Name    string // unique within the run
	Auto    string // candidate invariant name (auto-invariants): a failing step drops the candidate
	Kind    string // post, pre, inv-entry, inv-step, decreases, safety, frame, assert, lemma, cover
	Tag     string // property tag or ""
	Func    string
	Pos     string
	Prefix  int    // script prefix length visible to this obligation
	Guard   string
	Formula string // to be proved under Guard (query asserts Guard and (not Formula))
	Src     string
	Cover   bool // must be SAT (vacuity guard)
	// model extraction
	Inputs []ModelInput
	Region string // extra assumption (known-finding handling)
	KF     *KnownFinding
	Replay *ReplaySpec
}

type ModelInput struct {
	Name string
	Term string
	T    types.Type
}

type Frame struct {
	fn       *ssa.Function
	vals     map[ssa.Value]V
	entry    *State
	params   []V
	contract *Contract
	top      bool
	safety   bool
	depth    int
	bindings []V
	defers   []deferred
	// per block
	out      map[*ssa.BasicBlock]*State
	edge     map[[2]*ssa.BasicBlock]string
	loops    map[*ssa.BasicBlock]*loopInfo
	rets     []retInfo
	curBlock *ssa.BasicBlock
	callOrd  map[string]int
	atIdx    int
	seenCalls map[string]bool
	// latchLoop: set while the clauses of a back edge are evaluated: a loop-carried variable
	// then denotes the value it had during the iteration that just ended (its phi at the
	// loop head), not the value the post statement has already given it
	latchLoop *loopInfo
	callLog  map[string]*callRec
	callSeq  int
	callOrdOf map[*ssa.CallCommon]int
}

type deferred struct {
	call  *ssa.CallCommon
	guard string
	pos   token.Pos
}

type retInfo struct {
	guard   string
	results []V
	st      *State
}

type loopInfo struct {
	head    *ssa.BasicBlock
	blocks  map[*ssa.BasicBlock]bool
	latches []*ssa.BasicBlock
	ordinal int
	minPos  token.Pos
	// at head
	headState *State
	headPhis  map[*ssa.Phi]V
	measure0  string
	autoInv   []autoCand
}

type autoCand struct {
	phi   *ssa.Phi
	op    string
	bound string
	name  string
	// clause: a migrated loop invariant (see orphanInvs) instead of a bound on phi
	clause *Clause
	// required: a migrated property (tagged) invariant - an ordinary obligation of the loop
	// it landed on, never dropped
	required bool
}

type Exec struct {
	prog      *Program
	s         *Script
	cs        *ContractSet
	obls      []*Obligation
	notes     []string // abstractions in force (reported in evidence)
	noteSet   map[string]bool
	maxDepth  int
	dropAuto  map[string]bool
	// rename tolerance: renames maps a local name that untagged loop clauses use but the
	// function no longer has to the candidate local tried in its place; unknownLoopIdents
	// collects such names while generating.
	renames           map[string]string
	unknownLoopIdents map[string]bool
	// orphanInvs: conjuncts of loop invariants the contract of the function under verification
	// gives for loops it no longer has (the loop was moved into a helper). They are tried as
	// candidate invariants on the loops of helpers that have no contract of their own.
	orphanInvs []*Clause
	// orphanPlaced: tagged orphan invariants that found a helper loop to hold on
	orphanPlaced map[*Clause]bool
	dispatchDepth int
	stack     []*ssa.Function
	noDefine  int
	errGlobals []string
	trusted   map[string]bool
	curFunc   string
	oblNames  map[string]int
	topFrame  *Frame
	calledContracts map[string]bool
	topFn           *ssa.Function   // function under verification
	abstract        map[string]bool // abstract-calls of its contract
	ccBindings      []V // closure bindings of the call being applied modularly
	goMemo          map[string]V // callGo results by function, argument terms and heap version
	curCall   *ssa.CallCommon
	specMode  int
	kfs       []*KnownFinding
	protected []protEntry
	cellClosures map[string]*Closure // cell pointer term -> the closure stored there (single-assignment cells)
}

func (x *Exec) note(format string, args ...any) {
	m := fmt.Sprintf(format, args...)
	if x.noteSet == nil {
		x.noteSet = map[string]bool{}
	}
	if !x.noteSet[m] {
		x.noteSet[m] = true
		x.notes = append(x.notes, m)
	}
}

func (x *Exec) define(prefix, sortName, term string) string {
	if x.noDefine > 0 {
		return term
	}
	return x.s.define(prefix, sortName, term)
}

func (x *Exec) assume(guard, fact string) {
	if fact == "true" {
		return
	}
	if x.noDefine > 0 {
		return
	}
	x.s.assume(implies(guard, fact))
}

func (x *Exec) addObl(o *Obligation) {
	if x.noDefine > 0 {
		return
	}
	if x.oblNames == nil {
		x.oblNames = map[string]int{}
	}
	x.oblNames[o.Name]++
	if n := x.oblNames[o.Name]; n > 1 {
		o.Name = fmt.Sprintf("%s~%d", o.Name, n)
	}
	o.Prefix = len(x.s.cmds)
	if x.topFrame != nil && o.Inputs == nil {
		o.Inputs = x.modelInputs(x.topFrame)
	}
	x.obls = append(x.obls, o)
}

// heap access ---------------------------------------------------------------

func (x *Exec) heapGet(st *State, key string, t types.Type) string {
	if v, ok := st.heap[key]; ok {
		return v
	}
	so := x.s.heapSort(key, t)
	name := fmt.Sprintf("H%d_%s_%d", st.base, sanitize(shortHeapKey(key)), x.s.keyID(key))
	if !x.s.declared[name] {
		x.s.declared[name] = true
		x.s.prelude = append(x.s.prelude, fmt.Sprintf("(declare-const %s %s)", name, so))
		if strings.HasPrefix(key, "MP:") {
			mk := t.(*types.Map)
			x.s.prelude = append(x.s.prelude, fmt.Sprintf("(assert (= (select %s 0) ((as const (Array %s Bool)) false)))", name, x.s.sortOf(mk.Key())))
		}
		if strings.HasPrefix(key, "ML:") {
			x.s.prelude = append(x.s.prelude, fmt.Sprintf("(assert (= (select %s 0) 0))", name))
			x.s.prelude = append(x.s.prelude, fmt.Sprintf("(assert (forall ((r Int)) (! (>= (select %s r) 0) :pattern ((select %s r)))))", name, name))
		}
	}
	return name
}

func shortHeapKey(key string) string {
	i := strings.LastIndex(key, "/")
	if i >= 0 {
		return key[:strings.Index(key, ":")+1] + key[i+1:]
	}
	return key
}

func (x *Exec) heapSet(st *State, key string, t types.Type, term string) {
	so := x.s.heapSort(key, t)
	st.heap[key] = x.define("h_"+shortHeapKey(key), so, term)
}

func (x *Exec) applyPath(term string, path []PathSel) string {
	for _, sel := range path {
		if sel.Field >= 0 {
			term = "(" + x.s.accessor(sel.From, sel.Field) + " " + term + ")"
		} else {
			term = "(select " + term + " " + sel.Index + ")"
		}
	}
	return term
}

func (x *Exec) updatePath(term string, path []PathSel, v string) string {
	if len(path) == 0 {
		return v
	}
	sel := path[0]
	if sel.Field >= 0 {
		inner := "(" + x.s.accessor(sel.From, sel.Field) + " " + term + ")"
		return x.s.updField(sel.From, term, sel.Field, x.updatePath(inner, path[1:], v))
	}
	inner := "(select " + term + " " + sel.Index + ")"
	return "(store " + term + " " + sel.Index + " " + x.updatePath(inner, path[1:], v) + ")"
}

func (x *Exec) placeRootTerm(st *State, p *Place) string {
	h := x.heapGet(st, p.Arr, placeHeapT(p))
	switch len(p.Idx) {
	case 0:
		return h
	case 1:
		return "(select " + h + " " + p.Idx[0] + ")"
	default:
		return "(select (select " + h + " " + p.Idx[0] + ") " + p.Idx[1] + ")"
	}
}

func (x *Exec) loadPlace(st *State, p *Place) V {
	t := p.Type()
	term := x.applyPath(x.placeRootTerm(st, p), p.Path)
	term = x.define("ld", x.s.sortOf(t), term)
	x.assume(st.guard, x.valueInv(st, t, term))
	return V{T: t, S: term}
}

// valueInv: type invariant plus "references were allocated before now".
func (x *Exec) valueInv(st *State, t types.Type, term string) string {
	inv := x.s.typeInv(t, term)
	switch t.Underlying().(type) {
	case *types.Pointer, *types.Map, *types.Chan:
		inv = and(inv, "(<= "+term+" "+st.alloc+")")
	case *types.Slice:
		inv = and(inv, "(<= (s_base "+term+") "+st.alloc+")")
		// the backing array of a slice is one allocation and the Go runtime refuses allocations
		// above maxAlloc, so cap*sizeof(elem) <= 2^48
		// (the Go runtime's maxAlloc on linux/amd64 is 2^48 bytes; zero-size elements excluded)
		if k := elemSize(t.Underlying().(*types.Slice).Elem()); k >= 1 {
			inv = and(inv, fmt.Sprintf("(<= (* %d (s_cap %s)) 281474976710656)", k, term))
		}
	}
	return inv
}

var gcSizes = types.SizesFor("gc", "amd64")

func elemSize(t types.Type) (k int64) {
	defer func() {
		if recover() != nil {
			k = 0
		}
	}()
	if _, isTP := t.(*types.TypeParam); isTP {
		return 0
	}
	return gcSizes.Sizeof(t)
}

func (x *Exec) storePlace(st *State, p *Place, v string) {
	h := x.heapGet(st, p.Arr, placeHeapT(p))
	switch len(p.Idx) {
	case 0:
		x.heapSet(st, p.Arr, placeHeapT(p), x.updatePath(h, p.Path, v))
	case 1:
		cur := "(select " + h + " " + p.Idx[0] + ")"
		x.heapSet(st, p.Arr, placeHeapT(p), "(store "+h+" "+p.Idx[0]+" "+x.updatePath(cur, p.Path, v)+")")
	default:
		row := "(select " + h + " " + p.Idx[0] + ")"
		cur := "(select " + row + " " + p.Idx[1] + ")"
		x.heapSet(st, p.Arr, placeHeapT(p), "(store "+h+" "+p.Idx[0]+" (store "+row+" "+p.Idx[1]+" "+x.updatePath(cur, p.Path, v)+"))")
	}
}

// placeOf converts a pointer value into a place.
func (x *Exec) placeOf(v V) *Place {
	if v.Pl != nil {
		return v.Pl
	}
	pt, ok := v.T.Underlying().(*types.Pointer)
	if !ok {
		panic(fmt.Sprintf("placeOf: not a pointer: %v", v.T))
	}
	// objects of array type live in the slice storage of their element type (row = the
	// array), so that slicing an array aliases it exactly
	if arr, ok := pt.Elem().Underlying().(*types.Array); ok {
		return &Place{Arr: heapKeySlice(arr.Elem()), Idx: []string{v.S}, ElemT: pt.Elem()}
	}
	return &Place{Arr: heapKeyObj(pt.Elem()), Idx: []string{v.S}, ElemT: pt.Elem()}
}

// placeHeapT: the type argument heapGet/heapSet expect for a place's heap array.
func placeHeapT(p *Place) types.Type {
	if strings.HasPrefix(p.Arr, "S:") && len(p.Idx) == 1 {
		if arr, ok := p.ElemT.Underlying().(*types.Array); ok {
			return arr.Elem()
		}
	}
	return p.ElemT
}

// heapKeyForObj: heap array holding objects of type t (see placeOf).
func heapKeyForObj(t types.Type) (string, types.Type) {
	if arr, ok := t.Underlying().(*types.Array); ok {
		return heapKeySlice(arr.Elem()), arr.Elem()
	}
	return heapKeyObj(t), t
}

// ptrTerm encodes a pointer as an SMT Int when possible.
func (x *Exec) ptrTerm(v V) (string, bool) {
	if v.Pl == nil {
		return v.S, true
	}
	if len(v.Pl.Path) == 0 && len(v.Pl.Idx) == 1 && (strings.HasPrefix(v.Pl.Arr, "H:") || strings.HasPrefix(v.Pl.Arr, "S:")) {
		return v.Pl.Idx[0], true
	}
	return "", false
}

func (x *Exec) newRef(st *State) string {
	r := x.define("ref", "Int", "(+ "+st.alloc+" 1)")
	st.alloc = r
	return r
}

func (x *Exec) havocAll(st *State, why string) {
	x.note("havoc of the whole heap: %s", why)
	// non-escaping locals (go/ssa: Alloc.Heap == false) cannot be written by code
	// that never sees their address: they keep their contents
	type kept struct {
		p   protEntry
		val string
	}
	var keep []kept
	for _, p := range x.protected {
		h := x.heapGet(st, p.key, p.ht)
		keep = append(keep, kept{p, x.define("keep", x.s.sortOf(p.t), "(select "+h+" "+p.ref+")")})
	}
	st.heap = map[string]string{}
	x.s.nfresh++
	st.base = x.s.nfresh
	na := x.s.declare("alloc", "Int")
	x.assume("true", "(>= "+na+" "+st.alloc+")")
	st.alloc = na
	for _, k := range keep {
		h := x.heapGet(st, k.p.key, k.p.ht)
		x.heapSet(st, k.p.key, k.p.ht, "(store "+h+" "+k.p.ref+" "+k.val+")")
	}
}

type protEntry struct {
	key string
	t   types.Type // type of the protected object
	ht  types.Type // type argument of its heap array (element type for array objects)
	ref string
}

// restoreProtected re-establishes the contents of non-escaping locals after a
// heap component was havocked because of a call's or loop's unknown effects.
func (x *Exec) restoreProtected(st *State, key string, old string) {
	for _, p := range x.protected {
		if p.key != key {
			continue
		}
		h := st.heap[key]
		x.heapSet(st, key, p.ht, "(store "+h+" "+p.ref+" (select "+old+" "+p.ref+"))")
	}
}

// merging -----------------------------------------------------------------

type inEdge struct {
	st   *State
	cond string
}

func (x *Exec) mergeStates(ins []inEdge) *State {
	if len(ins) == 1 {
		n := ins[0].st.clone()
		n.guard = ins[0].cond
		return n
	}
	var guards []string
	for _, e := range ins {
		guards = append(guards, e.cond)
	}
	out := &State{heap: map[string]string{}, guard: x.define("g", "Bool", or(guards...))}
	sameBase := true
	for _, e := range ins[1:] {
		if e.st.base != ins[0].st.base {
			sameBase = false
		}
	}
	keys := map[string]bool{}
	for _, e := range ins {
		for k := range e.st.heap {
			keys[k] = true
		}
	}
	if !sameBase {
		for k := range x.s.heapDecl {
			keys[k] = true
		}
		x.s.nfresh++
		out.base = x.s.nfresh
	} else {
		out.base = ins[0].st.base
	}
	for _, k := range sortedKeys(keys) {
		t := x.s.heapT[k]
		vals := make([]string, len(ins))
		same := true
		for i, e := range ins {
			vals[i] = x.heapGet(e.st, k, t)
			if vals[i] != vals[0] {
				same = false
			}
		}
		if same && sameBase {
			if _, ok := ins[0].st.heap[k]; ok {
				out.heap[k] = vals[0]
			}
			continue
		}
		term := vals[len(vals)-1]
		for i := len(vals) - 2; i >= 0; i-- {
			term = ite(ins[i].cond, vals[i], term)
		}
		out.heap[k] = x.define("hm", x.s.heapSort(k, t), term)
	}
	al := ins[len(ins)-1].st.alloc
	for i := len(ins) - 2; i >= 0; i-- {
		al = ite(ins[i].cond, ins[i].st.alloc, al)
	}
	out.alloc = x.define("alloc", "Int", al)
	return out
}

// loops -------------------------------------------------------------------

func findLoops(fn *ssa.Function) map[*ssa.BasicBlock]*loopInfo {
	loops := map[*ssa.BasicBlock]*loopInfo{}
	for _, b := range fn.Blocks {
		for _, succ := range b.Succs {
			if succ.Dominates(b) { // back edge b -> succ
				li := loops[succ]
				if li == nil {
					li = &loopInfo{head: succ, blocks: map[*ssa.BasicBlock]bool{succ: true}}
					loops[succ] = li
				}
				li.latches = append(li.latches, b)
				// natural loop: nodes that reach b without passing through head
				stack := []*ssa.BasicBlock{b}
				for len(stack) > 0 {
					n := stack[len(stack)-1]
					stack = stack[:len(stack)-1]
					if li.blocks[n] {
						continue
					}
					li.blocks[n] = true
					stack = append(stack, n.Preds...)
				}
			}
		}
	}
	var list []*loopInfo
	for _, li := range loops {
		li.minPos = token.Pos(1 << 40)
		for b := range li.blocks {
			for _, in := range b.Instrs {
				if _, isDbg := in.(*ssa.DebugRef); isDbg {
					continue
				}
				if _, isPhi := in.(*ssa.Phi); isPhi {
					// a phi carries the position of the variable's declaration (a named result
					// declared in the signature would move the loop to the top of the function)
					continue
				}
				if p := in.Pos(); p.IsValid() && p < li.minPos {
					li.minPos = p
				}
			}
		}
		list = append(list, li)
	}
	sort.Slice(list, func(i, j int) bool {
		if list[i].minPos != list[j].minPos {
			return list[i].minPos < list[j].minPos
		}
		if len(list[i].blocks) != len(list[j].blocks) {
			return len(list[i].blocks) > len(list[j].blocks)
		}
		return list[i].head.Index < list[j].head.Index
	})
	for i, li := range list {
		li.ordinal = i + 1
	}
	return loops
}

func rpo(fn *ssa.Function) []*ssa.BasicBlock {
	seen := map[*ssa.BasicBlock]bool{}
	var post []*ssa.BasicBlock
	var dfs func(b *ssa.BasicBlock)
	dfs = func(b *ssa.BasicBlock) {
		seen[b] = true
		for _, s := range b.Succs {
			if !seen[s] && !s.Dominates(b) {
				dfs(s)
			}
		}
		post = append(post, b)
	}
	if len(fn.Blocks) > 0 {
		dfs(fn.Blocks[0])
	}
	// include recover block etc. only if reachable; reverse
	for i, j := 0, len(post)-1; i < j; i, j = i+1, j-1 {
		post[i], post[j] = post[j], post[i]
	}
	return post
}

// execFunc symbolically executes fn from state st. Returns the merged result
// values and exit state (nil state if the function never returns normally).
func (x *Exec) execFunc(fr *Frame, st *State) ([]V, *State) {
	fn := fr.fn
	fr.vals = map[ssa.Value]V{}
	fr.out = map[*ssa.BasicBlock]*State{}
	fr.edge = map[[2]*ssa.BasicBlock]string{}
	fr.loops = findLoops(fn)
	fr.callOrd = map[string]int{}
	fr.entry = st.clone()
	for i, p := range fn.Params {
		fr.vals[p] = fr.params[i]
	}
	for i, fv := range fn.FreeVars {
		if i < len(fr.bindings) {
			fr.vals[fv] = fr.bindings[i]
		}
	}
	x.stack = append(x.stack, fn)
	nprot := len(x.protected)
	defer func() {
		x.stack = x.stack[:len(x.stack)-1]
		x.protected = x.protected[:nprot]
	}()

	order := rpo(fn)
	for _, b := range order {
		var ins []inEdge
		if b == fn.Blocks[0] {
			ins = append(ins, inEdge{st, st.guard})
		}
		li := fr.loops[b]
		for _, p := range b.Preds {
			if li != nil && li.blocks[p] && b.Dominates(p) {
				continue // back edge
			}
			ps, ok := fr.out[p]
			if !ok {
				continue
			}
			c, ok := fr.edge[[2]*ssa.BasicBlock{p, b}]
			if !ok {
				continue
			}
			ins = append(ins, inEdge{ps, c})
		}
		if len(ins) == 0 {
			continue // unreachable
		}
		cur := x.mergeStates(ins)
		fr.curBlock = b
		// phis
		phiVals := map[*ssa.Phi]V{}
		for _, in := range b.Instrs {
			phi, ok := in.(*ssa.Phi)
			if !ok {
				break
			}
			var cands []V
			var conds []string
			for i, p := range b.Preds {
				if li != nil && li.blocks[p] && b.Dominates(p) {
					continue
				}
				c, ok := fr.edge[[2]*ssa.BasicBlock{p, b}]
				if !ok {
					continue
				}
				cands = append(cands, x.value(fr, phi.Edges[i]))
				conds = append(conds, c)
			}
			phiVals[phi] = x.mergeVals(phi.Type(), cands, conds)
		}
		if li != nil {
			cur = x.loopHead(fr, li, cur, phiVals)
		} else {
			for phi, v := range phiVals {
				fr.vals[phi] = v
			}
		}
		x.execBlock(fr, b, cur)
	}
	// merge returns
	if len(fr.rets) == 0 {
		return nil, nil
	}
	var ins []inEdge
	for _, r := range fr.rets {
		ins = append(ins, inEdge{r.st, r.guard})
	}
	out := x.mergeStates(ins)
	nres := fn.Signature.Results().Len()
	results := make([]V, nres)
	for i := 0; i < nres; i++ {
		var cands []V
		var conds []string
		for _, r := range fr.rets {
			cands = append(cands, r.results[i])
			conds = append(conds, r.guard)
		}
		results[i] = x.mergeVals(fn.Signature.Results().At(i).Type(), cands, conds)
	}
	return results, out
}

func (x *Exec) mergeVals(t types.Type, cands []V, conds []string) V {
	if len(cands) == 0 {
		return V{T: t, S: x.s.zero(t)}
	}
	if len(cands) == 1 {
		return cands[0]
	}
	// closures / places: only mergeable if encodable
	allSame := true
	for _, c := range cands[1:] {
		if c.S != cands[0].S || c.Pl != cands[0].Pl || c.Cl != cands[0].Cl {
			allSame = false
		}
	}
	if allSame {
		return cands[0]
	}
	terms := make([]string, len(cands))
	for i, c := range cands {
		if c.Cl != nil {
			x.note("merge of distinct function values (treated as opaque)")
			terms[i] = "0"
			continue
		}
		if c.Pl != nil {
			pt, ok := x.ptrTerm(c)
			if !ok {
				x.note("merge of interior pointers (treated as opaque)")
				pt = x.s.declare("optr", "Int")
			}
			terms[i] = pt
			continue
		}
		terms[i] = c.S
	}
	term := terms[len(terms)-1]
	for i := len(terms) - 2; i >= 0; i-- {
		term = ite(conds[i], terms[i], term)
	}
	return V{T: t, S: x.define("phi", x.s.sortOf(t), term)}
}

// value returns the symbolic value of an SSA value.
func (x *Exec) value(fr *Frame, v ssa.Value) V {
	if val, ok := fr.vals[v]; ok {
		return val
	}
	switch c := v.(type) {
	case *ssa.Const:
		return x.constVal(c)
	case *ssa.Global:
		t := c.Type().(*types.Pointer).Elem()
		key := heapKeyGlobal(c.Pkg.Pkg.Path() + "." + c.Name())
		return V{T: c.Type(), Pl: &Place{Arr: key, ElemT: t}}
	case *ssa.Function:
		return V{T: c.Type(), Cl: &Closure{Fn: c}, S: "1"}
	case *ssa.Builtin:
		return V{T: c.Type(), S: "0"}
	}
	// value from an unreachable or unprocessed block
	t := v.Type()
	if _, ok := t.(*types.Tuple); ok {
		tup := t.(*types.Tuple)
		var vs []V
		for i := 0; i < tup.Len(); i++ {
			vs = append(vs, V{T: tup.At(i).Type(), S: x.s.zero(tup.At(i).Type())})
		}
		return V{T: t, Tup: vs}
	}
	return V{T: t, S: x.s.zero(t)}
}

func (x *Exec) constVal(c *ssa.Const) V {
	t := c.Type()
	if c.Value == nil {
		return V{T: t, S: x.s.zero(t)}
	}
	switch c.Value.Kind() {
	case constant.Bool:
		if constant.BoolVal(c.Value) {
			return V{T: t, S: "true"}
		}
		return V{T: t, S: "false"}
	case constant.String:
		return V{T: t, S: x.s.strLit(constant.StringVal(c.Value))}
	case constant.Int:
		bi, _ := new(big.Int).SetString(c.Value.ExactString(), 10)
		if _, _, ok := intInfo(t); !ok {
			// e.g. float typed constant with integer value
			return V{T: t, S: bi.String() + ".0"}
		}
		return V{T: t, S: x.s.intLit(t, bi)}
	case constant.Float:
		f, _ := constant.Float64Val(c.Value)
		return V{T: t, S: fmt.Sprintf("%f", f)}
	}
	return V{T: t, S: x.s.zero(t)}
}

// evalLoopClause evaluates a loop invariant. An untagged invariant is proof structure only:
// when it can no longer be evaluated against the code (it names a variable the loop no
// longer has) it is dropped with a note - the obligations it supported then fail or pass on
// their own - instead of aborting the function. A tagged (property) clause still aborts.
func (x *Exec) evalLoopClause(fr *Frame, inv *Clause, st *State, point *ssa.BasicBlock) (f string, ok bool) {
	defer func() {
		if r := recover(); r != nil {
			ce, isCE := r.(contractError)
			if !isCE || inv.Tag != "" || !strings.Contains(string(ce), "unknown identifier") {
				panic(r)
			}
			x.note("loop invariant of %s dropped: it cannot be evaluated against the current code (%s): %s", funcKey(fr.fn), string(ce), inv.Src)
			if m := unknownIdentRe.FindStringSubmatch(string(ce)); m != nil && fr.top {
				if x.unknownLoopIdents == nil {
					x.unknownLoopIdents = map[string]bool{}
				}
				x.unknownLoopIdents[m[1]] = true
			}
			f, ok = "true", false
		}
	}()
	if inv.Tag == "" && x.renames != nil {
		return x.evalClauseRenaming(fr, inv, st, point), true
	}
	return x.evalClause(fr, inv, st, point, nil), true
}

var unknownIdentRe = regexp.MustCompile(`unknown identifier "([A-Za-z_][A-Za-z0-9_]*)"`)

// evalClauseRenaming is evalClause with the rename table in force.
func (x *Exec) evalClauseRenaming(fr *Frame, c *Clause, st *State, point *ssa.BasicBlock) (out string) {
	env := x.frameEnv(fr, st, point, nil)
	env.allowRename = true
	defer func() {
		if r := recover(); r != nil {
			if ce, ok := r.(contractError); ok {
				panic(contractError(fmt.Sprintf("%s:%d: %s", c.File, c.Line, string(ce))))
			}
			panic(r)
		}
	}()
	return env.evalBool(c.E)
}

// tryLoopClause evaluates a clause that may not make sense at this loop at all: any
// contract error means "not a candidate here".
func (x *Exec) tryLoopClause(fr *Frame, cl *Clause, st *State, point *ssa.BasicBlock) (f string, ok bool) {
	defer func() {
		if r := recover(); r != nil {
			if _, isCE := r.(contractError); !isCE {
				panic(r)
			}
			f, ok = "true", false
		}
	}()
	return x.evalClause(fr, cl, st, point, nil), true
}

// loopHead cuts the loop: asserts invariants on entry, havocs, assumes.
func (x *Exec) loopHead(fr *Frame, li *loopInfo, entry *State, phiEntry map[*ssa.Phi]V) *State {
	var lc *LoopContract
	if fr.contract != nil {
		lc = fr.contract.Loops[li.ordinal]
	}
	fname := funcKey(fr.fn)
	// 1. invariants hold on entry
	if lc != nil {
		for i, inv := range lc.Invariants {
			for phi, v := range phiEntry {
				fr.vals[phi] = v
			}
			f, okc := x.evalLoopClause(fr, inv, entry, li.head)
			if !okc {
				continue
			}
			x.addObl(&Obligation{Name: fmt.Sprintf("%s#loop%d.inv%d.entry", fname, li.ordinal, i+1), Kind: "inv-entry", Tag: inv.Tag,
				Func: fname, Pos: x.prog.pos(li.minPos), Guard: entry.guard, Formula: f, Src: inv.Src})
		}
	}
	// 2. havoc
	head := entry.clone()
	baseBefore := head.base
	x.loopHavoc(fr, li, entry, head)
	if head.base == baseBefore {
		na := x.s.declare("alloc", "Int")
		x.assume("true", "(>= "+na+" "+head.alloc+")")
		head.alloc = na
	}
	li.headPhis = map[*ssa.Phi]V{}
	for phi := range phiEntry {
		t := phi.Type()
		if phiEntry[phi].Cl != nil || phiEntry[phi].Pl != nil {
			// loop-carried closure/interior pointer: keep entry value if all edges agree, else opaque
			fr.vals[phi] = phiEntry[phi]
			li.headPhis[phi] = phiEntry[phi]
			continue
		}
		n := x.s.declare(phiName(phi), x.s.sortOf(t))
		v := V{T: t, S: n}
		x.assume("true", x.valueInv(head, t, n))
		fr.vals[phi] = v
		li.headPhis[phi] = v
	}
	// 3a. candidate invariants (auto-invariants), for integer loop variables v:
	//   v >= c      when v enters the loop with the constant c
	//   v < N, v <= N   when the loop compares v (or v+const) with N, N fixed during the loop
	// Each candidate must hold on entry and is checked at every back edge; candidates that fail
	// either are dropped and the function is regenerated (verifyFunc).
	li.autoInv = nil
	if fr.contract != nil && fr.contract.AutoInv {
		var phis []*ssa.Phi
		for phi := range phiEntry {
			phis = append(phis, phi)
		}
		sort.Slice(phis, func(i, j int) bool { return phis[i].Pos() < phis[j].Pos() || (phis[i].Pos() == phis[j].Pos() && phis[i].Name() < phis[j].Name()) })
		addCand := func(phi *ssa.Phi, suffix, op, bound string) {
			name := fmt.Sprintf("%s#loop%d.auto.%s.%s", fname, li.ordinal, strings.TrimPrefix(phiName(phi), "v_"), suffix)
			if x.dropAuto[name] {
				return
			}
			for _, c := range li.autoInv {
				if c.name == name {
					return
				}
			}
			ev := phiEntry[phi]
			if ev.S == "" {
				return
			}
			x.addObl(&Obligation{Name: name + ".entry", Kind: "inv-entry", Auto: name, Func: fname, Pos: x.prog.pos(li.minPos), Guard: entry.guard,
				Formula: "(" + op + " " + x.toMathInt(ev) + " " + bound + ")", Src: "candidate invariant (auto-invariants): " + strings.TrimPrefix(phiName(phi), "v_") + " " + op + " " + bound})
			li.autoInv = append(li.autoInv, autoCand{phi: phi, op: op, bound: bound, name: name})
			x.assume(head.guard, "("+op+" "+x.toMathInt(fr.vals[phi])+" "+bound+")")
		}
		for _, phi := range phis {
			if _, _, ok := intInfo(phi.Type()); !ok {
				continue
			}
			var c0 *ssa.Const
			for ei, e := range phi.Edges {
				pred := li.head.Preds[ei]
				if li.blocks[pred] && li.head.Dominates(pred) {
					continue
				}
				k, ok := e.(*ssa.Const)
				if !ok || k.Value == nil || k.Value.Kind() != constant.Int || (c0 != nil && c0.Value.ExactString() != k.Value.ExactString()) {
					c0 = nil
					break
				}
				c0 = k
			}
			if c0 != nil {
				addCand(phi, "lo", ">=", x.toMathInt(x.constVal(c0)))
			} else if _, signed, _ := intInfo(phi.Type()); signed {
				// a cursor that enters with a parameter's value: v >= 0 and v <= len(p) for the
				// slice parameters p of the function
				addCand(phi, "ge0", ">=", "0")
				// a cursor only moves forward: v >= the value it entered the loop with
				if ev := phiEntry[phi]; ev.S != "" && ev.Pl == nil && ev.Cl == nil {
					addCand(phi, "geentry", ">=", x.toMathInt(ev))
				}
				for pi, prm := range fr.fn.Params {
					if _, isSl := prm.Type().Underlying().(*types.Slice); isSl && pi < len(fr.params) && fr.params[pi].S != "" {
						addCand(phi, "lelen_"+prm.Name(), "<=", "(s_len "+fr.params[pi].S+")")
					}
				}
			}
		}
		// upper bounds from comparisons inside the loop
		phiOf := func(v ssa.Value) *ssa.Phi {
			if b, ok := v.(*ssa.BinOp); ok && (b.Op == token.ADD || b.Op == token.SUB) {
				if _, isC := b.Y.(*ssa.Const); isC {
					v = b.X
				}
			}
			if p, ok := v.(*ssa.Phi); ok && p.Block() == li.head {
				if _, tracked := phiEntry[p]; tracked {
					return p
				}
			}
			return nil
		}
		fixedTerm := func(v ssa.Value) string {
			if _, _, ok := intInfo(v.Type()); !ok {
				return ""
			}
			if definedOutside(v, li) {
				val := x.value(fr, v)
				if val.S == "" {
					return ""
				}
				return x.toMathInt(val)
			}
			if c, ok := v.(*ssa.Call); ok {
				if b, isB := c.Call.Value.(*ssa.Builtin); isB && b.Name() == "len" && definedOutside(c.Call.Args[0], li) {
					if _, isSl := c.Call.Args[0].Type().Underlying().(*types.Slice); isSl {
						if a := x.value(fr, c.Call.Args[0]); a.S != "" {
							return "(s_len " + a.S + ")"
						}
					}
				}
			}
			return ""
		}
		var blocks []*ssa.BasicBlock
		for b := range li.blocks {
			blocks = append(blocks, b)
		}
		sort.Slice(blocks, func(i, j int) bool { return blocks[i].Index < blocks[j].Index })
		nb := 0
		for _, b := range blocks {
			for _, in := range b.Instrs {
				cmp, ok := in.(*ssa.BinOp)
				if !ok || (cmp.Op != token.LSS && cmp.Op != token.LEQ && cmp.Op != token.GTR && cmp.Op != token.GEQ) {
					continue
				}
				for _, pr := range [][2]ssa.Value{{cmp.X, cmp.Y}, {cmp.Y, cmp.X}} {
					phi := phiOf(pr[0])
					if phi == nil {
						continue
					}
					bound := fixedTerm(pr[1])
					if bound == "" {
						continue
					}
					nb++
					// `v < N` as the guard of a loop that steps v leaves v <= N at the head;
					// `v+c < N` (range loops test the incremented index) leaves v < N
					if _, direct := pr[0].(*ssa.Phi); direct {
						addCand(phi, fmt.Sprintf("le%d", nb), "<=", bound)
					} else {
						addCand(phi, fmt.Sprintf("lt%d", nb), "<", bound)
					}
				}
			}
		}
	}
	// 3b. migrated invariants: a loop of a helper without a contract, inlined into a function
	// whose contract still carries invariants for a loop it no longer has. Every conjunct that
	// can be evaluated here is a candidate (entry + step obligations, dropped when either fails).
	if fr.contract == nil && !fr.top && len(x.orphanInvs) > 0 {
		for ci, cl := range x.orphanInvs {
			name := fmt.Sprintf("%s#loop%d.migrated%d", fname, li.ordinal, ci+1)
			if x.dropAuto[name] {
				continue
			}
			for phi, v := range phiEntry {
				fr.vals[phi] = v
			}
			fe, ok1 := x.tryLoopClause(fr, cl, entry, li.head)
			for phi, v := range li.headPhis {
				fr.vals[phi] = v
			}
			fh, ok2 := x.tryLoopClause(fr, cl, head, li.head)
			if !ok1 || !ok2 {
				continue
			}
			if cl.Tag != "" {
				// a property invariant of a loop that moved into this helper: it must hold here
				if x.orphanPlaced == nil {
					x.orphanPlaced = map[*Clause]bool{}
				}
				x.orphanPlaced[cl] = true
				tname := fmt.Sprintf("%s#%s@loop%d.migrated", fname, cl.Tag, li.ordinal)
				x.addObl(&Obligation{Name: tname + ".entry", Kind: "inv-entry", Tag: cl.Tag, Func: fname, Pos: x.prog.pos(li.minPos), Guard: entry.guard,
					Formula: fe, Src: "property invariant (its loop moved into this helper): " + cl.Src})
				li.autoInv = append(li.autoInv, autoCand{name: tname, clause: cl, required: true})
				x.assume(head.guard, fh)
				continue
			}
			x.addObl(&Obligation{Name: name + ".entry", Kind: "inv-entry", Auto: name, Func: fname, Pos: x.prog.pos(li.minPos), Guard: entry.guard,
				Formula: fe, Src: "candidate invariant (migrated from the caller's contract): " + cl.Src})
			li.autoInv = append(li.autoInv, autoCand{name: name, clause: cl})
			x.assume(head.guard, fh)
		}
	}
	// 3c. cross-loop candidates (drift fallback, see crossLoopFallback in verify.go)
	if fr.top && fr.contract != nil && x.renames["$cross-loop"] != "" {
		var ords []int
		for n := range fr.contract.Loops {
			ords = append(ords, n)
		}
		sort.Ints(ords)
		ci := 0
		for _, n := range ords {
			for _, inv := range fr.contract.Loops[n].Invariants {
				if inv.Tag != "" {
					continue
				}
				for _, e := range splitConjuncts(inv.E) {
					ci++
					cl := &Clause{Kind: inv.Kind, Src: e.String(), E: e, Line: inv.Line, File: inv.File}
					name := fmt.Sprintf("%s#loop%d.cross%d", fname, li.ordinal, ci)
					if x.dropAuto[name] {
						continue
					}
					for phi, v := range phiEntry {
						fr.vals[phi] = v
					}
					fe, ok1 := x.tryLoopClause(fr, cl, entry, li.head)
					for phi, v := range li.headPhis {
						fr.vals[phi] = v
					}
					fh, ok2 := x.tryLoopClause(fr, cl, head, li.head)
					if !ok1 || !ok2 {
						continue
					}
					x.addObl(&Obligation{Name: name + ".entry", Kind: "inv-entry", Auto: name, Func: fname, Pos: x.prog.pos(li.minPos), Guard: entry.guard,
						Formula: fe, Src: "candidate invariant (from another loop's invariants): " + cl.Src})
					li.autoInv = append(li.autoInv, autoCand{name: name, clause: cl})
					x.assume(head.guard, fh)
				}
			}
		}
	}
	// 3. assume invariants
	if lc != nil {
		for _, inv := range lc.Invariants {
			f, okc := x.evalLoopClause(fr, inv, head, li.head)
			if !okc {
				continue
			}
			x.assume(head.guard, f)
		}
		if lc.Decreases != nil {
			m := x.evalExprAt(fr, lc.Decreases.E, head, li.head)
			li.measure0 = x.define("measure", "Int", x.toMathInt(m))
		}
	}
	li.headState = head.clone()
	return head
}

func phiName(phi *ssa.Phi) string {
	if phi.Comment != "" {
		return "v_" + phi.Comment
	}
	return "v_" + phi.Name()
}

// loopLatch asserts the invariants at a back edge.
func (x *Exec) loopLatch(fr *Frame, li *loopInfo, latch *ssa.BasicBlock, st *State, cond string) {
	var lc *LoopContract
	if fr.contract != nil {
		lc = fr.contract.Loops[li.ordinal]
	}
	fname := funcKey(fr.fn)
	// dynamic soundness check of the syntactic mod set
	x.checkLoopMods(fr, li, st)
	if lc == nil && len(li.autoInv) == 0 {
		return
	}
	idx := -1
	for i, p := range li.head.Preds {
		if p == latch {
			idx = i
		}
	}
	saved := map[*ssa.Phi]V{}
	for _, in := range li.head.Instrs {
		phi, ok := in.(*ssa.Phi)
		if !ok {
			break
		}
		saved[phi] = fr.vals[phi]
	}
	next := map[*ssa.Phi]V{}
	for phi := range saved {
		next[phi] = x.value(fr, phi.Edges[idx])
	}
	for phi, v := range next {
		fr.vals[phi] = v
	}
	for _, ac := range li.autoInv {
		if ac.clause != nil && ac.required {
			f, ok := x.tryLoopClause(fr, ac.clause, st, li.head)
			if !ok {
				f = "false"
			}
			x.addObl(&Obligation{Name: ac.name + ".step", Kind: "inv-step", Tag: ac.clause.Tag,
				Func: fname, Pos: x.prog.pos(li.minPos), Guard: cond, Formula: f, Src: "property invariant (its loop moved into this helper): " + ac.clause.Src})
			continue
		}
		if ac.clause != nil {
			if f, ok := x.tryLoopClause(fr, ac.clause, st, li.head); ok {
				x.addObl(&Obligation{Name: ac.name + ".step", Kind: "inv-step", Auto: ac.name,
					Func: fname, Pos: x.prog.pos(li.minPos), Guard: cond, Formula: f, Src: "candidate invariant (migrated from the caller's contract): " + ac.clause.Src})
			} else {
				x.addObl(&Obligation{Name: ac.name + ".step", Kind: "inv-step", Auto: ac.name,
					Func: fname, Pos: x.prog.pos(li.minPos), Guard: cond, Formula: "false", Src: "candidate invariant (migrated) cannot be evaluated at the back edge: " + ac.clause.Src})
			}
			continue
		}
		x.addObl(&Obligation{Name: ac.name + ".step", Kind: "inv-step", Auto: ac.name,
			Func: fname, Pos: x.prog.pos(li.minPos), Guard: cond, Formula: "(" + ac.op + " " + x.toMathInt(next[ac.phi]) + " " + ac.bound + ")", Src: "candidate invariant (auto-invariants): " + strings.TrimPrefix(phiName(ac.phi), "v_") + " " + ac.op + " " + ac.bound})
	}
	if lc == nil {
		for phi, v := range saved {
			fr.vals[phi] = v
		}
		return
	}
	if len(lc.Latch) > 0 {
		// evaluated with the iteration's own values (not the next iteration's)
		for phi, v := range saved {
			fr.vals[phi] = v
		}
		for i, la := range lc.Latch {
			f := x.evalClause(fr, la, st, latch, nil)
			name := fmt.Sprintf("%s#loop%d.latch%d", fname, li.ordinal, i+1)
			if la.Tag != "" {
				name = fmt.Sprintf("%s#%s@loop%d", fname, la.Tag, li.ordinal)
			}
			x.addObl(&Obligation{Name: name, Kind: "assert", Tag: la.Tag, Func: fname, Pos: x.prog.pos(li.minPos), Guard: cond, Formula: f, Src: la.Src})
		}
		for phi, v := range next {
			fr.vals[phi] = v
		}
	}
	for i, inv := range lc.Invariants {
		f, okc := x.evalLoopClause(fr, inv, st, li.head)
		if !okc {
			continue
		}
		x.addObl(&Obligation{Name: fmt.Sprintf("%s#loop%d.inv%d.step", fname, li.ordinal, i+1), Kind: "inv-step", Tag: inv.Tag,
			Func: fname, Pos: x.prog.pos(li.minPos), Guard: cond, Formula: f, Src: inv.Src})
	}
	if lc.Decreases != nil {
		m := x.evalExprAt(fr, lc.Decreases.E, st, li.head)
		m1 := x.toMathInt(m)
		x.addObl(&Obligation{Name: fmt.Sprintf("%s#loop%d.decreases", fname, li.ordinal), Kind: "decreases",
			Func: fname, Pos: x.prog.pos(li.minPos), Guard: cond, Formula: and("(>= "+li.measure0+" 0)", "(< "+m1+" "+li.measure0+")"), Src: lc.Decreases.Src})
	}
	for phi, v := range saved {
		fr.vals[phi] = v
	}
}

func (x *Exec) checkLoopMods(fr *Frame, li *loopInfo, st *State) {
	// every heap key whose term differs from the head state must have been havocked
	if li.headState == nil || st.base != li.headState.base {
		return
	}
	_ = fr
}

// execBlock executes the non-phi instructions of a block.
func (x *Exec) execBlock(fr *Frame, b *ssa.BasicBlock, st *State) {
	for idx, in := range b.Instrs {
		if _, ok := in.(*ssa.Phi); ok {
			continue
		}
		fr.atIdx = idx
		fr.curBlock = b
		x.execInstr(fr, in, st)
	}
	fr.atIdx = 0
	fr.out[b] = st
	// edges
	last := b.Instrs[len(b.Instrs)-1]
	setEdge := func(succ *ssa.BasicBlock, cond string) {
		c := x.define("e", "Bool", cond)
		if li := fr.loops[succ]; li != nil && li.blocks[b] && succ.Dominates(b) {
			// at the back edge every instruction of this block has been executed: names
			// defined in it are visible to latch clauses
			// names at a back edge: everything the loop body defined is visible; the step of an
			// induction variable (`index++`, recognised in lookupLocal as phi +/- constant) is
			// not - a latch clause speaks about the iteration that just ended
			fr.atIdx = len(b.Instrs)
			fr.latchLoop = li
			x.loopLatch(fr, li, b, st, c)
			fr.latchLoop = nil
			fr.atIdx = 0
			return
		}
		key := [2]*ssa.BasicBlock{b, succ}
		if prev, ok := fr.edge[key]; ok {
			fr.edge[key] = or(prev, c)
		} else {
			fr.edge[key] = c
		}
	}
	switch t := last.(type) {
	case *ssa.If:
		c := x.value(fr, t.Cond).S
		setEdge(b.Succs[0], and(st.guard, c))
		setEdge(b.Succs[1], and(st.guard, not(c)))
	case *ssa.Jump:
		setEdge(b.Succs[0], st.guard)
	}
}

func funcKey(fn *ssa.Function) string {
	if fn == nil {
		return "?"
	}
	// package-relative key
	name := fn.Name()
	if fn.Parent() != nil {
		return funcKey(fn.Parent()) + strings.TrimPrefix(name, fn.Parent().Name())
	}
	if recv := fn.Signature.Recv(); recv != nil {
		rt := recv.Type()
		star := ""
		if p, ok := rt.(*types.Pointer); ok {
			rt = p.Elem()
			star = "*"
		}
		tn := ""
		if n, ok := rt.(*types.Named); ok {
			tn = n.Obj().Name()
		} else {
			tn = rt.String()
		}
		return "(" + star + tn + ")." + name
	}
	return name
}

func fullFuncKey(fn *ssa.Function) string {
	pkg := ""
	if fn.Pkg != nil {
		pkg = fn.Pkg.Pkg.Path()
	} else if fn.Parent() != nil {
		p := fn
		for p.Parent() != nil {
			p = p.Parent()
		}
		if p.Pkg != nil {
			pkg = p.Pkg.Pkg.Path()
		}
	} else if o := fn.Origin(); o != nil && o.Pkg != nil {
		pkg = o.Pkg.Pkg.Path()
	} else if fn.Object() != nil && fn.Object().Pkg() != nil {
		pkg = fn.Object().Pkg().Path()
	}
	return pkg + "." + funcKey(fn)
}
