package main

// Models of standard-library functions (the `trusted` contracts of DESIGN.md 6.4).
// Each model used in a run is recorded in the evidence's trusted base.

import (
	"fmt"
	"go/constant"
	"go/token"
	"go/types"
	"math/big"
	"strings"

	"golang.org/x/tools/go/ssa"
)

type bigIntT = big.Int

func newBig(n int64) *big.Int { return big.NewInt(n) }

func (x *Exec) trust(what string) {
	if x.trusted == nil {
		x.trusted = map[string]bool{}
	}
	x.trusted[what] = true
}

func (x *Exec) errPrelude() {
	x.s.declareUF("errIs", "(Int Int)", "Bool")
	x.s.declareUF("errPlain", "(Int)", "Bool")
	x.s.onceAssert("(forall ((e Int) (t Int)) (! (=> (errPlain e) (= (errIs e t) (= e t))) :pattern ((errIs e t))))")
	x.s.onceAssert("(forall ((t Int)) (! (= (errIs 0 t) (= t 0)) :pattern ((errIs 0 t))))")
	x.s.onceAssert("(forall ((e Int)) (! (=> (not (= e 0)) (errIs e e)) :pattern ((errIs e e))))")
}

func (x *Exec) errIsTerm(e, t string) string {
	x.errPrelude()
	for _, g := range x.errGlobals {
		x.s.onceAssert("(errPlain " + g + ")")
	}
	x.trust("errors.Is(e, t): true if e == t (non-nil); for errors made by errors.New / package-level sentinels exactly e == t; for fmt.Errorf(%w) wrappers: the wrapper itself or any wrapped error matches")
	return "(errIs " + e + " " + t + ")"
}

// libCall returns a model result for known library functions.
func (x *Exec) libCall(fr *Frame, st *State, key string, callee *ssa.Function, args []V, rt types.Type, pos token.Pos) (V, bool) {
	switch key {
	case "errors.New":
		x.errPrelude()
		r := x.freshOfType(st, rt, "err")
		x.assume("true", and("(> "+r.S+" 0)", "(errPlain "+r.S+")"))
		x.trust("errors.New returns a non-nil error that matches only itself")
		return r, true
	case "fmt.Errorf":
		x.errPrelude()
		r := x.freshOfType(st, rt, "err")
		x.assume("true", "(> "+r.S+" 0)")
		nW := -1
		var wrapped []string
		if x.curCall != nil && len(x.curCall.Args) >= 1 {
			if c, ok := x.curCall.Args[0].(*ssa.Const); ok && c.Value != nil {
				nW = strings.Count(constant.StringVal(c.Value), "%w")
			}
			if len(x.curCall.Args) >= 2 {
				wrapped = x.errorOperands(fr, x.curCall.Args[1])
			}
		}
		alts := []string{"(= " + r.S + " t)"}
		for _, w := range wrapped {
			alts = append(alts, "(errIs "+w+" t)")
		}
		switch {
		case nW == 0:
			x.assume("true", "(forall ((t Int)) (! (= (errIs "+r.S+" t) (= "+r.S+" t)) :pattern ((errIs "+r.S+" t))))")
		case nW > 0 && nW == len(wrapped):
			x.assume("true", "(forall ((t Int)) (! (= (errIs "+r.S+" t) "+or(alts...)+") :pattern ((errIs "+r.S+" t))))")
		default:
			// unknown format or operand mix: only the sound direction
			x.assume("true", "(forall ((t Int)) (! (=> (errIs "+r.S+" t) "+or(append(alts, "true")[:len(alts)]...)+") :pattern ((errIs "+r.S+" t))))")
			if nW < 0 || len(wrapped) != nW {
				// operands are unknown: errIs on the result is left unconstrained
			}
		}
		x.trust("fmt.Errorf returns a non-nil error; errors.Is on it matches itself and, for %w verbs, whatever the wrapped error operands match")
		return r, true
	case "errors.Is":
		return V{T: rt, S: x.define("is", "Bool", x.errIsTerm(args[0].S, args[1].S))}, true
	case "errors.Join":
		x.errPrelude()
		r := x.freshOfType(st, rt, "err")
		x.trust("errors.Join result unconstrained except nil-ness unknown")
		return r, true
	case "slices.Equal", "bytes.Equal":
		a, b := args[0], args[1]
		if isSliceT(a.T) {
			x.trust(key + "(a, b) <==> same length and pointwise equal")
			return V{T: rt, S: x.define("sleq", "Bool", x.sliceEqTerm(st, a, st, b))}, true
		}
	case "slices.Clone", "bytes.Clone":
		a := args[0]
		if sl, ok := a.T.Underlying().(*types.Slice); ok {
			x.trust(key + " returns a fresh slice with the same contents (nil for nil)")
			n := "(s_len " + a.S + ")"
			res := x.newSlice(st, sl.Elem(), n, n, false)
			sarr := x.heapGet(st, heapKeySlice(sl.Elem()), sl.Elem())
			x.assume(st.guard, fmt.Sprintf("(forall ((ci! Int)) (! (=> (and (<= 0 ci!) (< ci! %s)) (= (select (select %s (s_base %s)) ci!) (select (select %s (s_base %s)) (+ (s_off %s) ci!)))) :pattern ((select (select %s (s_base %s)) ci!))))",
				n, sarr, res.S, sarr, a.S, a.S, sarr, res.S))
			out := x.define("clone", "Slice", ite("(= (s_base "+a.S+") 0)", "(mk_slice 0 0 0 0)", res.S))
			return V{T: a.T, S: out}, true
		}
	case "strings.Contains", "strings.HasPrefix", "strings.HasSuffix", "strings.EqualFold":
		fn := "str_" + strings.ToLower(strings.TrimPrefix(key, "strings."))
		if x.s.strSMT {
			op := map[string]string{"strings.Contains": "str.contains", "strings.HasPrefix": "str.prefixof", "strings.HasSuffix": "str.suffixof"}[key]
			if op != "" {
				if key == "strings.Contains" {
					return V{T: rt, S: "(" + op + " " + args[0].S + " " + args[1].S + ")"}, true
				}
				return V{T: rt, S: "(" + op + " " + args[1].S + " " + args[0].S + ")"}, true
			}
		}
		x.s.declareUF(fn, "("+x.s.strSort()+" "+x.s.strSort()+")", "Bool")
		x.trust(key + " is a pure function of its arguments (uninterpreted)")
		return V{T: rt, S: "(" + fn + " " + args[0].S + " " + args[1].S + ")"}, true
	case "strings.TrimSpace", "strings.ToLower", "strings.ToUpper":
		fn := "str_" + strings.ToLower(strings.TrimPrefix(key, "strings."))
		x.s.declareUF(fn, "("+x.s.strSort()+")", x.s.strSort())
		x.trust(key + " is a pure function of its argument (uninterpreted)")
		return V{T: rt, S: "(" + fn + " " + args[0].S + ")"}, true
	case "strings.TrimSuffix", "strings.TrimPrefix":
		if x.s.strSMT {
			s, suf := args[0].S, args[1].S
			if key == "strings.TrimSuffix" {
				return V{T: rt, S: x.define("trim", "String", "(ite (str.suffixof "+suf+" "+s+") (str.substr "+s+" 0 (- (str.len "+s+") (str.len "+suf+"))) "+s+")")}, true
			}
			return V{T: rt, S: x.define("trim", "String", "(ite (str.prefixof "+suf+" "+s+") (str.substr "+s+" (str.len "+suf+") (- (str.len "+s+") (str.len "+suf+"))) "+s+")")}, true
		}
		fn := "str_" + strings.ToLower(strings.TrimPrefix(key, "strings."))
		x.s.declareUF(fn, "("+x.s.strSort()+" "+x.s.strSort()+")", x.s.strSort())
		x.trust(key + " is a pure function of its arguments (uninterpreted)")
		return V{T: rt, S: "(" + fn + " " + args[0].S + " " + args[1].S + ")"}, true
	case "sort.Slice", "sort.SliceStable":
		// sort.Slice(x, less): permutes the elements of x in place. Modelled effect: the
		// elements of x's backing array inside [off, off+len) are replaced by unknown values
		// (the permutation and sortedness facts are not used by any claimed obligation);
		// everything outside that window is unchanged.
		if x.curCall != nil {
			if mi, ok := x.curCall.Args[0].(*ssa.MakeInterface); ok {
				sv := x.value(fr, mi.X)
				if sl, ok := sv.T.Underlying().(*types.Slice); ok {
					et := sl.Elem()
					key := heapKeySlice(et)
					sarr := x.heapGet(st, key, et)
					na := x.s.declare("sorted", "(Array Int "+x.s.sortOf(et)+")")
					x.assume(st.guard, fmt.Sprintf("(forall ((ai! Int)) (! (=> (or (< ai! (s_off %s)) (>= ai! (+ (s_off %s) (s_len %s)))) (= (select %s ai!) (select (select %s (s_base %s)) ai!))) :pattern ((select %s ai!))))",
						sv.S, sv.S, sv.S, na, sarr, sv.S, na))
					if inv := x.s.typeInv(et, "(select "+na+" ai!)"); inv != "true" {
						x.assume(st.guard, fmt.Sprintf("(forall ((ai! Int)) (! %s :pattern ((select %s ai!))))", inv, na))
					}
					x.heapSet(st, key, et, "(ite (= (s_base "+sv.S+") 0) "+sarr+" (store "+sarr+" (s_base "+sv.S+") "+na+"))")
					x.trust("sort.Slice(x, less) only rearranges the elements of x (modelled as: elements of x become unknown, nothing else changes; less is assumed pure)")
					return V{T: rt}, true
				}
			}
		}
	case "time.Now":
		x.trust("time.Now returns an arbitrary value")
		return x.freshOfType(st, rt, "now"), true
	case "sync.(*Mutex).Lock", "sync.(*Mutex).Unlock", "sync.(*RWMutex).Lock", "sync.(*RWMutex).Unlock", "sync.(*RWMutex).RLock", "sync.(*RWMutex).RUnlock":
		x.trust("lock operations are no-ops: sequential reasoning inside critical sections (DESIGN.md 3.5)")
		return V{T: rt}, true
	}
	return V{}, false
}

// errorOperands finds the error-typed operands of a variadic ...any argument
// (SSA pattern: alloc [n]any; store boxed operands; slice).
func (x *Exec) errorOperands(fr *Frame, va ssa.Value) []string {
	sl, ok := va.(*ssa.Slice)
	if !ok {
		return nil
	}
	al, ok := sl.X.(*ssa.Alloc)
	if !ok {
		return nil
	}
	errT := types.Universe.Lookup("error").Type().Underlying().(*types.Interface)
	var out []string
	for _, ref := range *al.Referrers() {
		ia, ok := ref.(*ssa.IndexAddr)
		if !ok {
			continue
		}
		for _, r2 := range *ia.Referrers() {
			stp, ok := r2.(*ssa.Store)
			if !ok {
				continue
			}
			var inner ssa.Value
			switch v := stp.Val.(type) {
			case *ssa.MakeInterface:
				inner = v.X
			case *ssa.ChangeInterface:
				inner = v.X
			}
			if inner == nil || !types.Implements(inner.Type(), errT) {
				continue
			}
			out = append(out, x.value(fr, stp.Val).S)
		}
	}
	return out
}

// libMods: heap effects of modelled library calls (for loop/function mod sets).
func (x *Exec) libMods(key string, cc *ssa.CallCommon) ([]modTarget, bool) {
	switch key {
	case "errors.New", "fmt.Errorf", "errors.Is", "errors.Join", "slices.Equal", "bytes.Equal", "strings.Contains", "strings.HasPrefix", "strings.HasSuffix",
		"strings.EqualFold", "strings.TrimSpace", "strings.ToLower", "strings.ToUpper", "strings.TrimSuffix", "strings.TrimPrefix", "time.Now",
		"sync.(*Mutex).Lock", "sync.(*Mutex).Unlock", "sync.(*RWMutex).Lock", "sync.(*RWMutex).Unlock", "sync.(*RWMutex).RLock", "sync.(*RWMutex).RUnlock":
		return nil, true
	case "slices.Clone", "bytes.Clone":
		if sl, ok := cc.Args[0].Type().Underlying().(*types.Slice); ok {
			return []modTarget{{key: heapKeySlice(sl.Elem()), t: sl.Elem()}}, true
		}
	case "sort.Slice", "sort.SliceStable":
		if mi, ok := cc.Args[0].(*ssa.MakeInterface); ok {
			if sl, ok := mi.X.Type().Underlying().(*types.Slice); ok {
				return []modTarget{{key: heapKeySlice(sl.Elem()), t: sl.Elem()}}, true
			}
		}
	}
	return nil, false
}
