package main

// Models of standard-library functions (the `trusted` contracts of DESIGN.md 6.4).
// Each model used in a run is recorded in the evidence's trusted base.

import (
	"fmt"
	"go/constant"
	"go/token"
	"go/types"
	"math/big"
	"strings"

	"golang.org/x/tools/go/ssa"
)

type bigIntT = big.Int

func newBig(n int64) *big.Int { return big.NewInt(n) }

func (x *Exec) trust(what string) {
	if x.trusted == nil {
		x.trusted = map[string]bool{}
	}
	x.trusted[what] = true
}

func (x *Exec) errPrelude() {
	x.s.declareUF("errIs", "(Int Int)", "Bool")
	x.s.declareUF("errPlain", "(Int)", "Bool")
	x.s.onceAssert("(forall ((e Int) (t Int)) (! (=> (errPlain e) (= (errIs e t) (= e t))) :pattern ((errIs e t))))")
	x.s.onceAssert("(forall ((t Int)) (! (= (errIs 0 t) (= t 0)) :pattern ((errIs 0 t))))")
	x.s.onceAssert("(forall ((e Int)) (! (=> (not (= e 0)) (errIs e e)) :pattern ((errIs e e))))")
}

func (x *Exec) errIsTerm(e, t string) string {
	x.errPrelude()
	for _, g := range x.errGlobals {
		x.s.onceAssert("(errPlain " + g + ")")
	}
	x.trust("errors.Is(e, t): true if e == t (non-nil); for errors made by errors.New / package-level sentinels exactly e == t; for fmt.Errorf(%w) wrappers: the wrapper itself or any wrapped error matches")
	return "(errIs " + e + " " + t + ")"
}

// libCall returns a model result for known library functions.
func (x *Exec) libCall(fr *Frame, st *State, key string, callee *ssa.Function, args []V, rt types.Type, pos token.Pos) (V, bool) {
	if strings.HasPrefix(key, "sync/atomic.(*") && len(args) >= 1 {
		if v, ok := x.atomicCall(fr, st, key, args, rt, pos); ok {
			return v, true
		}
	}
	if strings.HasPrefix(key, "encoding/binary.(bigEndian).") || strings.HasPrefix(key, "encoding/binary.(littleEndian).") {
		if v, ok := x.binaryCall(fr, st, key, args, rt, pos); ok {
			return v, true
		}
	}
	switch key {
	case "errors.New":
		x.errPrelude()
		r := x.freshOfType(st, rt, "err")
		x.assume("true", and("(> "+r.S+" 0)", "(errPlain "+r.S+")"))
		x.trust("errors.New returns a non-nil error that matches only itself")
		return r, true
	case "github.com/pkg/errors.New", "github.com/pkg/errors.Errorf":
		x.errPrelude()
		r := x.freshOfType(st, rt, "err")
		x.assume("true", "(> "+r.S+" 0)")
		x.trust("github.com/pkg/errors New/Errorf return a non-nil error")
		return r, true
	case "github.com/pkg/errors.Wrap", "github.com/pkg/errors.Wrapf", "github.com/pkg/errors.WithStack", "github.com/pkg/errors.WithMessage":
		// nil in, nil out; otherwise a non-nil error
		x.errPrelude()
		r := x.freshOfType(st, rt, "err")
		x.assume("true", "(= (= "+r.S+" 0) (= "+args[0].S+" 0))")
		x.trust("github.com/pkg/errors Wrap* return nil exactly for a nil error")
		return r, true
	case "fmt.Errorf":
		x.errPrelude()
		r := x.freshOfType(st, rt, "err")
		x.assume("true", "(> "+r.S+" 0)")
		nW := -1
		var wrapped []string
		if x.curCall != nil && len(x.curCall.Args) >= 1 {
			if c, ok := x.curCall.Args[0].(*ssa.Const); ok && c.Value != nil {
				nW = strings.Count(constant.StringVal(c.Value), "%w")
			}
			if len(x.curCall.Args) >= 2 {
				wrapped = x.errorOperands(fr, x.curCall.Args[1])
			}
		}
		alts := []string{"(= " + r.S + " t)"}
		for _, w := range wrapped {
			alts = append(alts, "(errIs "+w+" t)")
		}
		switch {
		case nW == 0:
			x.assume("true", "(forall ((t Int)) (! (= (errIs "+r.S+" t) (= "+r.S+" t)) :pattern ((errIs "+r.S+" t))))")
		case nW > 0 && nW == len(wrapped):
			x.assume("true", "(forall ((t Int)) (! (= (errIs "+r.S+" t) "+or(alts...)+") :pattern ((errIs "+r.S+" t))))")
		default:
			// unknown format or operand mix: only the sound direction
			x.assume("true", "(forall ((t Int)) (! (=> (errIs "+r.S+" t) "+or(append(alts, "true")[:len(alts)]...)+") :pattern ((errIs "+r.S+" t))))")
			if nW < 0 || len(wrapped) != nW {
				// operands are unknown: errIs on the result is left unconstrained
			}
		}
		x.trust("fmt.Errorf returns a non-nil error; errors.Is on it matches itself and, for %w verbs, whatever the wrapped error operands match")
		return r, true
	case "errors.Is":
		return V{T: rt, S: x.define("is", "Bool", x.errIsTerm(args[0].S, args[1].S))}, true
	case "errors.Join":
		x.errPrelude()
		r := x.freshOfType(st, rt, "err")
		// errors.Join(errs...) is nil exactly when every element is nil
		if x.curCall != nil && len(args) == 1 {
			if sl, ok := x.curCall.Args[0].(*ssa.Slice); ok {
				if al, ok := sl.X.(*ssa.Alloc); ok {
					if arr, ok := al.Type().(*types.Pointer).Elem().Underlying().(*types.Array); ok && arr.Len() <= 8 && sl.Low == nil && sl.High == nil {
						et := arr.Elem()
						sarr := x.heapGet(st, heapKeySlice(et), et)
						var nils []string
						for i := int64(0); i < arr.Len(); i++ {
							nils = append(nils, fmt.Sprintf("(= (select (select %s (s_base %s)) (+ (s_off %s) %d)) 0)", sarr, args[0].S, args[0].S, i))
						}
						x.assume(st.guard, "(= (= "+r.S+" 0) "+and(nils...)+")")
						x.trust("errors.Join(errs...) is nil exactly when every element is nil (its other properties are not modelled)")
						return r, true
					}
				}
			}
		}
		x.trust("errors.Join result unconstrained except nil-ness unknown")
		return r, true
	case "slices.Equal", "bytes.Equal":
		a, b := args[0], args[1]
		if isSliceT(a.T) {
			x.trust(key + "(a, b) <==> same length and pointwise equal")
			return V{T: rt, S: x.define("sleq", "Bool", x.sliceEqTerm(st, a, st, b))}, true
		}
	case "slices.Clone", "bytes.Clone":
		a := args[0]
		if sl, ok := a.T.Underlying().(*types.Slice); ok {
			x.trust(key + " returns a fresh slice with the same contents (nil for nil)")
			n := "(s_len " + a.S + ")"
			res := x.newSlice(st, sl.Elem(), n, n, false)
			sarr := x.heapGet(st, heapKeySlice(sl.Elem()), sl.Elem())
			x.assume(st.guard, fmt.Sprintf("(forall ((ci! Int)) (! (=> (and (<= 0 ci!) (< ci! %s)) (= (select (select %s (s_base %s)) ci!) (select (select %s (s_base %s)) (+ (s_off %s) ci!)))) :pattern ((select (select %s (s_base %s)) ci!))))",
				n, sarr, res.S, sarr, a.S, a.S, sarr, res.S))
			out := x.define("clone", "Slice", ite("(= (s_base "+a.S+") 0)", "(mk_slice 0 0 0 0)", res.S))
			return V{T: a.T, S: out}, true
		}
	case "strings.Contains", "strings.HasPrefix", "strings.HasSuffix", "strings.EqualFold":
		fn := "str_" + strings.ToLower(strings.TrimPrefix(key, "strings."))
		if x.s.strSMT {
			op := map[string]string{"strings.Contains": "str.contains", "strings.HasPrefix": "str.prefixof", "strings.HasSuffix": "str.suffixof"}[key]
			if op != "" {
				if key == "strings.Contains" {
					return V{T: rt, S: "(" + op + " " + args[0].S + " " + args[1].S + ")"}, true
				}
				return V{T: rt, S: "(" + op + " " + args[1].S + " " + args[0].S + ")"}, true
			}
		}
		x.s.declareUF(fn, "("+x.s.strSort()+" "+x.s.strSort()+")", "Bool")
		x.trust(key + " is a pure function of its arguments (uninterpreted)")
		return V{T: rt, S: "(" + fn + " " + args[0].S + " " + args[1].S + ")"}, true
	case "strings.TrimSpace", "strings.ToLower", "strings.ToUpper":
		fn := "str_" + strings.ToLower(strings.TrimPrefix(key, "strings."))
		x.s.declareUF(fn, "("+x.s.strSort()+")", x.s.strSort())
		x.trust(key + " is a pure function of its argument (uninterpreted)")
		return V{T: rt, S: "(" + fn + " " + args[0].S + ")"}, true
	case "strings.TrimSuffix", "strings.TrimPrefix":
		if x.s.strSMT {
			s, suf := args[0].S, args[1].S
			if key == "strings.TrimSuffix" {
				return V{T: rt, S: x.define("trim", "String", "(ite (str.suffixof "+suf+" "+s+") (str.substr "+s+" 0 (- (str.len "+s+") (str.len "+suf+"))) "+s+")")}, true
			}
			return V{T: rt, S: x.define("trim", "String", "(ite (str.prefixof "+suf+" "+s+") (str.substr "+s+" (str.len "+suf+") (- (str.len "+s+") (str.len "+suf+"))) "+s+")")}, true
		}
		fn := "str_" + strings.ToLower(strings.TrimPrefix(key, "strings."))
		x.s.declareUF(fn, "("+x.s.strSort()+" "+x.s.strSort()+")", x.s.strSort())
		x.trust(key + " is a pure function of its arguments (uninterpreted)")
		return V{T: rt, S: "(" + fn + " " + args[0].S + " " + args[1].S + ")"}, true
	case "sort.Slice", "sort.SliceStable":
		// sort.Slice(x, less): permutes the elements of x in place. Modelled effect: the
		// elements of x's backing array inside [off, off+len) are replaced by unknown values
		// (the permutation and sortedness facts are not used by any claimed obligation);
		// everything outside that window is unchanged.
		if x.curCall != nil {
			if mi, ok := x.curCall.Args[0].(*ssa.MakeInterface); ok {
				sv := x.value(fr, mi.X)
				if sl, ok := sv.T.Underlying().(*types.Slice); ok {
					et := sl.Elem()
					key := heapKeySlice(et)
					sarr := x.heapGet(st, key, et)
					na := x.s.declare("sorted", "(Array Int "+x.s.sortOf(et)+")")
					x.assume(st.guard, fmt.Sprintf("(forall ((ai! Int)) (! (=> (or (< ai! (s_off %s)) (>= ai! (+ (s_off %s) (s_len %s)))) (= (select %s ai!) (select (select %s (s_base %s)) ai!))) :pattern ((select %s ai!))))",
						sv.S, sv.S, sv.S, na, sarr, sv.S, na))
					// every element after sorting is one of the elements before (skolemised permutation witness)
					pf := x.s.fresh("perm")
					x.s.emit("(declare-fun " + pf + " (Int) Int)")
					x.assume(st.guard, fmt.Sprintf("(forall ((ai! Int)) (! (=> (and (<= (s_off %s) ai!) (< ai! (+ (s_off %s) (s_len %s)))) (and (<= (s_off %s) (%s ai!)) (< (%s ai!) (+ (s_off %s) (s_len %s))) (= (select %s ai!) (select (select %s (s_base %s)) (%s ai!))))) :pattern ((select %s ai!))))",
						sv.S, sv.S, sv.S, sv.S, pf, pf, sv.S, sv.S, na, sarr, sv.S, pf, na))
					if inv := x.s.typeInv(et, "(select "+na+" ai!)"); inv != "true" {
						x.assume(st.guard, fmt.Sprintf("(forall ((ai! Int)) (! %s :pattern ((select %s ai!))))", inv, na))
					}
					x.heapSet(st, key, et, "(ite (= (s_base "+sv.S+") 0) "+sarr+" (store "+sarr+" (s_base "+sv.S+") "+na+"))")
					x.trust("sort.Slice(x, less) only rearranges the elements of x (modelled as: every element afterwards is one of the elements before, nothing outside x changes; multiplicity and sortedness are not used; less is assumed pure)")
					return V{T: rt}, true
				}
			}
		}
	case "sort.Strings", "sort.Ints", "sort.Float64s", "slices.Sort", "slices.SortFunc", "slices.SortStableFunc", "slices.Reverse",
		"slices.Insert", "slices.Delete", "slices.DeleteFunc", "slices.Compact", "slices.CompactFunc", "slices.Replace":
		// in-place library operations on a slice: its element array changes, nothing else;
		// the result (if any) is unconstrained
		switch key {
		case "sort.Strings", "sort.Ints", "sort.Float64s", "slices.Sort", "slices.SortFunc", "slices.SortStableFunc", "slices.Reverse":
			// these only permute the elements of their argument inside [off, off+len)
			if len(args) >= 1 {
				if sl, ok := args[0].T.Underlying().(*types.Slice); ok && args[0].S != "" {
					et := sl.Elem()
					hk := heapKeySlice(et)
					sarr := x.heapGet(st, hk, et)
					sv := args[0]
					na := x.s.declare("sorted", "(Array Int "+x.s.sortOf(et)+")")
					x.assume(st.guard, fmt.Sprintf("(forall ((ai! Int)) (! (=> (or (< ai! (s_off %s)) (>= ai! (+ (s_off %s) (s_len %s)))) (= (select %s ai!) (select (select %s (s_base %s)) ai!))) :pattern ((select %s ai!))))",
						sv.S, sv.S, sv.S, na, sarr, sv.S, na))
					if inv := x.s.typeInv(et, "(select "+na+" ai!)"); inv != "true" {
						x.assume(st.guard, fmt.Sprintf("(forall ((ai! Int)) (! %s :pattern ((select %s ai!))))", inv, na))
					}
					x.heapSet(st, hk, et, "(ite (= (s_base "+sv.S+") 0) "+sarr+" (store "+sarr+" (s_base "+sv.S+") "+na+"))")
					x.trust("sort.Strings/Ints/Float64s, slices.Sort*, slices.Reverse change only the elements of their argument inside its window (new contents unconstrained; comparators assumed pure)")
					return V{T: rt}, true
				}
			}
		}
		if ms, ok := sliceOpMods(x.curCall); ok {
			for _, m := range ms {
				x.havocKeyCall(st, m.key, m.t)
			}
			x.trust("in-place slice library operations (sort.Strings, slices.Sort*, slices.Reverse, slices.Insert/Delete/Compact/Replace) are modelled as a frame only: the element arrays of that element type may change, nothing else")
			return x.freshOfType(st, rt, "sliceop"), true
		}
	case "container/heap.Push", "container/heap.Pop", "container/heap.Remove", "container/heap.Fix", "container/heap.Init":
		// coarse frame model: the operation rearranges the heap's slice (through the
		// concrete type's Swap/Push/Pop methods) and may update fields of its elements;
		// nothing else changes, the result is unconstrained
		if ms, ok := heapOpMods(x.curCall); ok {
			// the heap's own slice header lives wherever the pointer argument points
			mi := x.curCall.Args[0].(*ssa.MakeInterface)
			hp := x.value(fr, mi.X)
			hpl := x.placeOf(hp)
			nh := x.freshOfType(st, hpl.Type(), "heaphdr")
			x.storePlace(st, hpl, nh.S)
			for _, m := range ms[1:] {
				if m.fields != nil {
					x.havocModTarget(st, m)
				} else {
					x.havocKeyCall(st, m.key, m.t)
				}
			}
			x.trust("container/heap operations are modelled as a frame only: they may change the heap's own slice, its elements and the element objects' fields; nothing else (results unconstrained)")
			return x.freshOfType(st, rt, "heapop"), true
		}
	case "hash/crc32.ChecksumIEEE":
		// a function of the byte content; when the argument is []byte(s) for a string s it is
		// the same uninterpreted function of s at every call site (collisions are possible)
		if x.curCall != nil {
			if cv, ok := x.curCall.Args[0].(*ssa.Convert); ok && isString(cv.X.Type()) {
				sv := x.value(fr, cv.X)
				x.s.declareUF("crc32_str", "("+x.s.strSort()+")", "Int")
				r := x.define("crc", "Int", "(crc32_str "+sv.S+")")
				x.assume("true", "(and (<= 0 "+r+") (<= "+r+" 4294967295))")
				x.trust("crc32.ChecksumIEEE([]byte(s)) is a (possibly colliding) function of s")
				return V{T: rt, S: r}, true
			}
		}
	case "strings.Index":
		if x.s.strSMT {
			return V{T: rt, S: "(str.indexof " + args[0].S + " " + args[1].S + " 0)"}, true
		}
		x.s.declareUF("str_index", "("+x.s.strSort()+" "+x.s.strSort()+")", "Int")
		x.trust("strings.Index is a pure function of its arguments (uninterpreted, -1 <= result <= len)")
		r := "(str_index " + args[0].S + " " + args[1].S + ")"
		x.assume("true", "(and (<= (- 1) "+r+") (<= "+r+" "+x.strLen(args[0].S)+"))")
		return V{T: rt, S: r}, true
	case "strings.Split":
		if x.s.strSMT {
			// strings.Split(s, sep) for a non-empty separator: the first part is the prefix before
			// the first separator; exactly one part iff the separator does not occur; exactly two
			// iff it occurs once (then the second part is the rest). Longer results are unconstrained.
			s, sep := args[0].S, args[1].S
			et := types.Typ[types.String]
			n := x.s.declare("nparts", "Int")
			res := x.newSlice(st, et, n, n, false)
			idx := x.define("splitidx", "Int", "(str.indexof "+s+" "+sep+" 0)")
			rest := x.define("splitrest", "String", "(str.substr "+s+" (+ "+idx+" (str.len "+sep+")) (str.len "+s+"))")
			first := x.define("splitfirst", "String", "(ite (< "+idx+" 0) "+s+" (str.substr "+s+" 0 "+idx+"))")
			p0 := x.sliceElem(st, res, "0")
			p1 := x.sliceElem(st, res, "1")
			x.assume(st.guard, and("(> (str.len "+sep+") 0)", "(>= "+n+" 1)",
				"(= (= "+n+" 1) (< "+idx+" 0))",
				"(= (= "+n+" 2) (and (>= "+idx+" 0) (not (str.contains "+rest+" "+sep+"))))",
				"(= "+p0+" "+first+")",
				"(=> (= "+n+" 2) (= "+p1+" "+rest+"))"))
			x.trust("strings.Split(s, sep): first part, and the exact result for at most one occurrence of sep, in SMT string terms")
			return res, true
		}
	case "time.Now":
		x.trust("time.Now returns an arbitrary value")
		return x.freshOfType(st, rt, "now"), true
	case "sync.(*Mutex).Lock", "sync.(*Mutex).Unlock", "sync.(*RWMutex).Lock", "sync.(*RWMutex).Unlock", "sync.(*RWMutex).RLock", "sync.(*RWMutex).RUnlock":
		x.trust("lock operations are no-ops: sequential reasoning inside critical sections (DESIGN.md 3.5)")
		return V{T: rt}, true
	}
	return V{}, false
}

// binaryCall models encoding/binary's fixed-width big/little-endian helpers
// exactly (byte values by div/mod), so that codecs built on them can be
// reasoned about. args[0] is the (empty struct) byte-order receiver.
func (x *Exec) binaryCall(fr *Frame, st *State, key string, args []V, rt types.Type, pos token.Pos) (V, bool) {
	if x.s.bv {
		return V{}, false
	}
	big := strings.Contains(key, "(bigEndian)")
	meth := key[strings.LastIndex(key, ".")+1:]
	width := 0
	for _, w := range []int{16, 32, 64} {
		if strings.HasSuffix(meth, fmt.Sprintf("Uint%d", w)) {
			width = w / 8
		}
	}
	if width == 0 {
		return V{}, false
	}
	byteOf := func(v string, i int) string { // i-th byte in memory order
		k := i
		if big {
			k = width - 1 - i
		}
		return fmt.Sprintf("(mod (div %s %s) 256)", v, pow2(8*k).String())
	}
	x.trust("encoding/binary fixed-width helpers (PutUintN / AppendUintN / UintN) modelled exactly")
	// bytesOf names the bytes of v and hands the solver the (true) arithmetic fact that they
	// recombine to v — an instance of the split/join lemma it would otherwise have to
	// rediscover through div/mod reasoning.
	abstract := x.topFrame != nil && x.topFrame.contract != nil && x.topFrame.contract.BinaryAbstract
	bytesOf := func(v string) []string {
		var bs, parts []string
		if abstract && !strings.HasPrefix(meth, "Uint") {
			for i := 0; i < width; i++ {
				b := x.s.declare("byte", "Int")
				x.assume("true", "(and (<= 0 "+b+") (<= "+b+" 255))")
				bs = append(bs, b)
			}
			return bs
		}
		for i := 0; i < width; i++ {
			k := i
			if big {
				k = width - 1 - i
			}
			b := x.define("byte", "Int", byteOf(v, i))
			bs = append(bs, b)
			parts = append(parts, "(* "+b+" "+pow2(8*k).String()+")")
			x.assume("true", "(and (<= 0 "+b+") (<= "+b+" 255))")
		}
		x.assume("true", "(= (+ "+strings.Join(parts, " ")+") "+v+")")
		return bs
	}
	switch {
	case strings.HasPrefix(meth, "AppendUint"):
		return x.appendElems(st, args[1], bytesOf(args[2].S)), true
	case strings.HasPrefix(meth, "PutUint"):
		b := args[1]
		x.check(fr, st, pos, "index", fmt.Sprintf("(>= (s_len %s) %d)", b.S, width))
		et := b.T.Underlying().(*types.Slice).Elem()
		keyS := heapKeySlice(et)
		sarr := x.heapGet(st, keyS, et)
		row := "(select " + sarr + " (s_base " + b.S + "))"
		for i, bt := range bytesOf(args[2].S) {
			row = fmt.Sprintf("(store %s (+ (s_off %s) %d) %s)", row, b.S, i, bt)
		}
		x.heapSet(st, keyS, et, "(store "+sarr+" (s_base "+b.S+") "+row+")")
		return V{T: rt}, true
	case strings.HasPrefix(meth, "Uint"):
		b := args[1]
		x.check(fr, st, pos, "index", fmt.Sprintf("(>= (s_len %s) %d)", b.S, width))
		var parts []string
		for i := 0; i < width; i++ {
			k := i
			if big {
				k = width - 1 - i
			}
			el := x.sliceElem(st, b, fmt.Sprint(i))
			x.assume(st.guard, "(and (<= 0 "+el+") (<= "+el+" 255))")
			parts = append(parts, "(* "+el+" "+pow2(8*k).String()+")")
		}
		return V{T: rt, S: x.define("be", "Int", "(+ "+strings.Join(parts, " ")+")")}, true
	}
	return V{}, false
}

// appendElems models append(s, e0, e1, ...) for explicitly given element terms.
func (x *Exec) appendElems(st *State, s V, elems []string) V {
	sl := s.T.Underlying().(*types.Slice)
	et := sl.Elem()
	key := heapKeySlice(et)
	k := len(elems)
	n := x.define("an", "Int", fmt.Sprintf("(+ (s_len %s) %d)", s.S, k))
	fits := x.define("fits", "Bool", "(<= "+n+" (s_cap "+s.S+"))")
	sarr := x.heapGet(st, key, et)
	fresh := x.newRef(st)
	newCap := x.s.declare("newcap", "Int")
	x.assume("true", "(and (>= "+newCap+" "+n+") (<= "+newCap+" 9223372036854775807))")
	x.assume(st.guard, "(<= "+n+" 9223372036854775807)")
	dstBase := x.define("ab", "Int", ite(fits, "(s_base "+s.S+")", fresh))
	dstOff := x.define("ao", "Int", ite(fits, "(s_off "+s.S+")", "0"))
	na := x.s.declare("arr", "(Array Int "+x.s.sortOf(et)+")")
	oldDst := "(select " + sarr + " " + dstBase + ")"
	srcOld := "(select " + sarr + " (s_base " + s.S + "))"
	x.assume(st.guard, fmt.Sprintf("(forall ((ai! Int)) (! (=> (and (or %s (<= %s ai!)) (< ai! (+ %s (s_len %s)))) (= (select %s ai!) (ite %s (select %s ai!) (select %s (+ (s_off %s) (- ai! %s)))))) :pattern ((select %s ai!))))",
		fits, dstOff, dstOff, s.S, na, fits, oldDst, srcOld, s.S, dstOff, na))
	// in place: everything outside the appended window is unchanged
	x.assume(st.guard, fmt.Sprintf("(forall ((ai! Int)) (! (=> (and %s (>= ai! (+ %s %s))) (= (select %s ai!) (select %s ai!))) :pattern ((select %s ai!))))", fits, dstOff, n, na, oldDst, na))
	for j, e := range elems {
		x.assume(st.guard, fmt.Sprintf("(= (select %s (+ %s (s_len %s) %d)) %s)", na, dstOff, s.S, j, e))
	}
	x.heapSet(st, key, et, "(store "+sarr+" "+dstBase+" "+na+")")
	res := x.define("sl", "Slice", "(mk_slice "+dstBase+" "+dstOff+" "+n+" "+ite(fits, "(s_cap "+s.S+")", newCap)+")")
	return V{T: s.T, S: res}
}

// atomicCall models the typed atomics (atomic.Uint64, Int64, Uint32, Int32, Bool)
// with sequential semantics: the value lives in the struct's field `v`.
func (x *Exec) atomicCall(fr *Frame, st *State, key string, args []V, rt types.Type, pos token.Pos) (V, bool) {
	rest := strings.TrimPrefix(key, "sync/atomic.(*")
	i := strings.Index(rest, ").")
	if i < 0 {
		return V{}, false
	}
	typ, meth := rest[:i], rest[i+2:]
	switch typ {
	case "Uint64", "Int64", "Uint32", "Int32", "Bool":
	default:
		return V{}, false
	}
	recv := args[0]
	if pt, ok := x.ptrTerm(recv); ok && recv.Pl == nil {
		x.check(fr, st, pos, "nil-deref", "(not (= "+pt+" 0))")
	}
	pl := x.placeOf(recv)
	stT, ok := pl.Type().Underlying().(*types.Struct)
	if !ok {
		return V{}, false
	}
	fi := -1
	for j := 0; j < stT.NumFields(); j++ {
		if stT.Field(j).Name() == "v" {
			fi = j
		}
	}
	if fi < 0 {
		return V{}, false
	}
	ft := stT.Field(fi).Type()
	fpl := pl.extend(PathSel{Field: fi, T: ft, From: pl.Type()})
	x.trust("sync/atomic typed values are modelled with sequential semantics (a plain field read/write); interleavings with other goroutines are not modelled")
	cur := x.loadPlace(st, fpl)
	isBool := typ == "Bool"
	// rely/guarantee mode (DESIGN.md 3.5 "Locks and atomics"): other goroutines may change
	// the value between any two of our operations, but only as `rely` allows; every write
	// of ours must satisfy `guarantee`.
	if spec := x.atomicSpec(pl); spec != nil && !isBool {
		evalRG := func(c *Clause, o, n string) string {
			env := &Env{x: x, pkg: x.prog.pkgOfFunc(x.topFrame.fn), names: map[string]V{"old": mathV(o), "new": mathV(n)}, cur: st, old: st}
			return env.evalBool(c.E)
		}
		relyHavoc := func() string {
			nv := x.s.declare("atomic", x.s.sortOf(ft))
			x.assume("true", x.s.typeInv(ft, nv))
			x.assume(st.guard, evalRG(spec.Rely, cur.S, nv))
			x.storePlace(st, fpl, nv)
			return nv
		}
		guar := func(o, n, what string) {
			f := evalRG(spec.Guarantee, o, n)
			name := fmt.Sprintf("%s#guarantee.%s.%s@%s", funcKey(x.stack[0]), spec.Field, what, x.prog.posShort(pos, fr.fn))
			if spec.Guarantee.Tag != "" {
				name = fmt.Sprintf("%s#%s.%s@%s", funcKey(x.stack[0]), spec.Guarantee.Tag, what, x.prog.posShort(pos, fr.fn))
			}
			x.addObl(&Obligation{Name: name, Kind: "assert", Tag: spec.Guarantee.Tag, Func: funcKey(x.stack[0]), Pos: x.prog.pos(pos), Guard: st.guard, Formula: f, Src: "guarantee " + spec.Guarantee.Src})
			x.assume(st.guard, f)
		}
		x.trust("atomic field " + spec.Field + ": rely/guarantee reasoning; interference by other goroutines is any sequence of steps satisfying the rely, which is justified by the guarantee obligations at every writer (writer inventory)")
		switch meth {
		case "Load":
			return V{T: rt, S: relyHavoc()}, true
		case "Store":
			c2 := relyHavoc()
			guar(c2, args[1].S, "Store")
			x.storePlace(st, fpl, args[1].S)
			return V{T: rt}, true
		case "Add":
			c2 := relyHavoc()
			nv := x.binop(fr, st, token.ADD, V{T: ft, S: c2}, V{T: ft, S: args[1].S}, ft, pos)
			guar(c2, nv.S, "Add")
			x.storePlace(st, fpl, nv.S)
			return V{T: rt, S: nv.S}, true
		case "CompareAndSwap":
			c2 := relyHavoc()
			ok := x.s.declare("cas_ok", "Bool")
			x.assume(st.guard, implies(ok, "(= "+c2+" "+args[1].S+")"))
			// the write happens only on success
			g := st.guard
			st.guard = x.define("g", "Bool", and(g, ok))
			guar(args[1].S, args[2].S, "CompareAndSwap")
			st.guard = g
			x.storePlace(st, fpl, ite(ok, args[2].S, c2))
			return V{T: rt, S: ok}, true
		case "Swap":
			c2 := relyHavoc()
			guar(c2, args[1].S, "Swap")
			x.storePlace(st, fpl, args[1].S)
			return V{T: rt, S: c2}, true
		}
	}
	boolOf := func(v V) V { return V{T: types.Typ[types.Bool], S: "(not (= " + v.S + " 0))"} }
	toStored := func(v V) string {
		if isBool {
			return ite(v.S, "1", "0")
		}
		return v.S
	}
	switch meth {
	case "Load":
		if isBool {
			return boolOf(cur), true
		}
		return V{T: rt, S: cur.S}, true
	case "Store":
		x.storePlace(st, fpl, toStored(args[1]))
		return V{T: rt}, true
	case "Swap":
		x.storePlace(st, fpl, toStored(args[1]))
		if isBool {
			return boolOf(cur), true
		}
		return V{T: rt, S: cur.S}, true
	case "Add":
		if isBool {
			return V{}, false
		}
		nv := x.binop(fr, st, token.ADD, V{T: ft, S: cur.S}, V{T: ft, S: args[1].S}, ft, pos)
		x.storePlace(st, fpl, nv.S)
		return V{T: rt, S: nv.S}, true
	case "CompareAndSwap":
		eq := x.define("cas", "Bool", "(= "+cur.S+" "+toStored(args[1])+")")
		x.storePlace(st, fpl, ite(eq, toStored(args[2]), cur.S))
		return V{T: rt, S: eq}, true
	}
	return V{}, false
}

// atomicSpec finds the rely/guarantee declaration for the atomic field a place denotes.
func (x *Exec) atomicSpec(pl *Place) *AtomicSpec {
	if x.topFrame == nil || x.topFrame.contract == nil || len(x.topFrame.contract.Atomics) == 0 || len(pl.Path) == 0 {
		return nil
	}
	last := pl.Path[len(pl.Path)-1]
	if last.Field < 0 {
		return nil
	}
	nt, ok := last.From.(*types.Named)
	if !ok {
		return nil
	}
	st, ok := nt.Underlying().(*types.Struct)
	if !ok {
		return nil
	}
	return x.topFrame.contract.Atomics[nt.Obj().Name()+"."+st.Field(last.Field).Name()]
}

// errorOperands finds the error-typed operands of a variadic ...any argument
// (SSA pattern: alloc [n]any; store boxed operands; slice).
func (x *Exec) errorOperands(fr *Frame, va ssa.Value) []string {
	sl, ok := va.(*ssa.Slice)
	if !ok {
		return nil
	}
	al, ok := sl.X.(*ssa.Alloc)
	if !ok {
		return nil
	}
	errT := types.Universe.Lookup("error").Type().Underlying().(*types.Interface)
	var out []string
	for _, ref := range *al.Referrers() {
		ia, ok := ref.(*ssa.IndexAddr)
		if !ok {
			continue
		}
		for _, r2 := range *ia.Referrers() {
			stp, ok := r2.(*ssa.Store)
			if !ok {
				continue
			}
			var inner ssa.Value
			switch v := stp.Val.(type) {
			case *ssa.MakeInterface:
				inner = v.X
			case *ssa.ChangeInterface:
				inner = v.X
			}
			if inner == nil || !types.Implements(inner.Type(), errT) {
				continue
			}
			out = append(out, x.value(fr, stp.Val).S)
		}
	}
	return out
}

// libMods: heap effects of modelled library calls (for loop/function mod sets).
func (x *Exec) libMods(key string, cc *ssa.CallCommon) ([]modTarget, bool) {
	if (strings.HasPrefix(key, "encoding/binary.(bigEndian).") || strings.HasPrefix(key, "encoding/binary.(littleEndian).")) && len(cc.Args) >= 2 {
		meth := key[strings.LastIndex(key, ".")+1:]
		if strings.HasPrefix(meth, "Uint") {
			return nil, true
		}
		if sl, ok := cc.Args[1].Type().Underlying().(*types.Slice); ok && (strings.HasPrefix(meth, "AppendUint") || strings.HasPrefix(meth, "PutUint")) {
			return []modTarget{{key: heapKeySlice(sl.Elem()), t: sl.Elem()}}, true
		}
	}
	if strings.HasPrefix(key, "sync/atomic.(*") && len(cc.Args) >= 1 {
		for _, t := range []string{"Uint64", "Int64", "Uint32", "Int32", "Bool"} {
			if strings.HasPrefix(key, "sync/atomic.(*"+t+").") {
				if strings.HasSuffix(key, ".Load") {
					return nil, true
				}
				k, tt, _ := storeKey(cc.Args[0])
				mt := modTarget{key: k, t: tt}
				if f := topField(cc.Args[0]); f >= 0 {
					mt.fields = map[int]bool{f: true}
				}
				return []modTarget{mt}, true
			}
		}
	}
	switch key {
	case "errors.New", "fmt.Errorf", "errors.Is", "errors.Join", "slices.Equal", "bytes.Equal", "strings.Contains", "strings.HasPrefix", "strings.HasSuffix",
		"strings.EqualFold", "strings.Index", "strings.TrimSpace", "strings.ToLower", "strings.ToUpper", "strings.TrimSuffix", "strings.TrimPrefix", "time.Now",
		"sync.(*Mutex).Lock", "sync.(*Mutex).Unlock", "sync.(*RWMutex).Lock", "sync.(*RWMutex).Unlock", "sync.(*RWMutex).RLock", "sync.(*RWMutex).RUnlock":
		return nil, true
	case "slices.Clone", "bytes.Clone":
		if sl, ok := cc.Args[0].Type().Underlying().(*types.Slice); ok {
			return []modTarget{{key: heapKeySlice(sl.Elem()), t: sl.Elem()}}, true
		}
	case "strings.Split":
		et := types.Typ[types.String]
		return []modTarget{{key: heapKeySlice(et), t: et}}, true
	case "hash/crc32.ChecksumIEEE":
		return nil, true
	case "container/heap.Push", "container/heap.Pop", "container/heap.Remove", "container/heap.Fix", "container/heap.Init":
		if ms, ok := heapOpMods(cc); ok {
			return ms, true
		}
	case "sort.Strings", "sort.Ints", "sort.Float64s", "slices.Sort", "slices.SortFunc", "slices.SortStableFunc", "slices.Reverse",
		"slices.Insert", "slices.Delete", "slices.DeleteFunc", "slices.Compact", "slices.CompactFunc", "slices.Replace":
		if ms, ok := sliceOpMods(cc); ok {
			return ms, true
		}
	case "sort.Slice", "sort.SliceStable":
		if mi, ok := cc.Args[0].(*ssa.MakeInterface); ok {
			if sl, ok := mi.X.Type().Underlying().(*types.Slice); ok {
				return []modTarget{{key: heapKeySlice(sl.Elem()), t: sl.Elem()}}, true
			}
		}
	}
	return nil, false
}

// heapOpMods: heap keys a container/heap operation may write, from the static type of
// the heap argument (an interface made from *NamedSlice).
func heapOpMods(cc *ssa.CallCommon) ([]modTarget, bool) {
	if cc == nil || len(cc.Args) == 0 {
		return nil, false
	}
	mi, ok := cc.Args[0].(*ssa.MakeInterface)
	if !ok {
		return nil, false
	}
	pt, ok := mi.X.Type().Underlying().(*types.Pointer)
	if !ok {
		return nil, false
	}
	sl, ok := pt.Elem().Underlying().(*types.Slice)
	if !ok {
		return nil, false
	}
	hk0, ht0, _ := storeKey(mi.X)
	ms := []modTarget{{key: hk0, t: ht0}, {key: heapKeySlice(sl.Elem()), t: sl.Elem()}}
	if ept, ok := sl.Elem().Underlying().(*types.Pointer); ok {
		hk, ht := heapKeyForObj(ept.Elem())
		mt := modTarget{key: hk, t: ht}
		if heapElemFields != nil {
			// container/heap reaches the elements only through the heap type's own
			// Len/Less/Swap/Push/Pop: the element fields those methods store into
			if fs, ok := heapElemFields(pt, hk); ok {
				mt.fields = fs
			}
		}
		ms = append(ms, mt)
	}
	return ms, true
}

// heapElemFields (set while a function is executed): the top-level fields of element
// objects (heap key hk) that the methods of the heap type *T write; ok=false when unknown.
var heapElemFields func(pt *types.Pointer, hk string) (map[int]bool, bool)

func (x *Exec) heapElemFieldsOf(pt *types.Pointer, hk string) (map[int]bool, bool) {
	ms := x.prog.ssaProg.MethodSets.MethodSet(pt)
	acc := map[string]modTarget{}
	for i := 0; i < ms.Len(); i++ {
		switch ms.At(i).Obj().Name() {
		case "Len", "Less", "Swap", "Push", "Pop":
		default:
			continue
		}
		fn := x.prog.ssaProg.MethodValue(ms.At(i))
		if fn == nil {
			return nil, false
		}
		x.prog.ensureBuilt(fn)
		if fn.Blocks == nil {
			return nil, false
		}
		if x.collectMods(fn, nil, map[*ssa.Function]bool{fn: true}, acc, 1) {
			return nil, false
		}
	}
	m, touched := acc[hk]
	if !touched {
		return map[int]bool{}, true
	}
	if m.fields == nil {
		return nil, false
	}
	return m.fields, true
}

// sliceOpMods: the element array key of the slice a library operation works on in place.
func sliceOpMods(cc *ssa.CallCommon) ([]modTarget, bool) {
	if cc == nil || len(cc.Args) == 0 {
		return nil, false
	}
	sl, ok := cc.Args[0].Type().Underlying().(*types.Slice)
	if !ok {
		return nil, false
	}
	return []modTarget{{key: heapKeySlice(sl.Elem()), t: sl.Elem()}}, true
}
