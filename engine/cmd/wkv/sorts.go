package main

// Sort mapping from Go types to SMT-LIB sorts, the script builder and the
// symbolic value representation (DESIGN.md 3.5).

import (
	"fmt"
	"go/types"
	"math/big"
	"sort"
	"strings"
)

// V is a symbolic value: an SMT term together with its Go type. Pointers that
// point into the interior of an object (or to a local) carry a Place instead
// of a plain reference term. Function values known statically carry a Closure.
type V struct {
	T   types.Type
	S   string
	Pl  *Place
	Cl  *Closure
	Tup []V
	// Math marks spec-level mathematical integers (no wrap-around).
	Math bool
	// Dyn: an interface value made from this concrete value on the current path (the
	// dynamic type is known exactly); method calls through it are resolved statically.
	Dyn *V
}

// Place is an lvalue: heap array, index terms and an accessor path inside the
// stored value.
type Place struct {
	Arr   string     // heap array key: "H:<type>" or "S:<type>"
	Idx   []string   // 1 index for H (ref), 2 for S (base, absolute index)
	ElemT types.Type // type of the value stored at Arr[Idx...]
	Path  []PathSel  // selectors applied to that value
}

type PathSel struct {
	Field int          // struct field index, or -1 for array element
	Index string       // SMT Int term for array element index
	T     types.Type   // type after applying this selector
	From  types.Type   // type before applying this selector
}

func (p *Place) Type() types.Type {
	if len(p.Path) == 0 {
		return p.ElemT
	}
	return p.Path[len(p.Path)-1].T
}

func (p *Place) extend(sel PathSel) *Place {
	np := &Place{Arr: p.Arr, Idx: p.Idx, ElemT: p.ElemT}
	np.Path = append(append([]PathSel{}, p.Path...), sel)
	return np
}

// Script is the linear SMT-LIB script under construction. Obligations refer to
// a prefix of it (only commands emitted before the obligation are visible to
// it, DESIGN.md 3.5 "Calls"/"Loops").
type Script struct {
	cmds     []string
	sorts    map[string]string // type key -> sort name
	declared map[string]bool
	nfresh   int
	bv       bool
	strSMT   bool
	strBytes bool // SMT strings: some character code is inspected, so the byte range matters
	strLits  map[string]string
	strOrder []string
	heapDecl map[string]string // heap key -> sort
	heapT    map[string]types.Type
	prelude  []string // sort/datatype declarations (always visible)
	uf       map[string]bool
	tagIDs   map[string]int
}

func newScript(bv, strSMT bool) *Script {
	s := &Script{sorts: map[string]string{}, declared: map[string]bool{}, bv: bv, strSMT: strSMT,
		strLits: map[string]string{}, heapDecl: map[string]string{}, heapT: map[string]types.Type{},
		uf: map[string]bool{}, tagIDs: map[string]int{}}
	s.prelude = append(s.prelude, "(declare-datatypes ((Slice 0)) (((mk_slice (s_base Int) (s_off Int) (s_len Int) (s_cap Int)))))")
	if !strSMT {
		s.prelude = append(s.prelude,
			"(declare-sort Str 0)",
			"(declare-fun slen (Str) Int)",
			"(declare-fun sat (Str Int) Int)",
			"(declare-fun sconcat (Str Str) Str)",
			"(declare-fun slt (Str Str) Bool)",
			"(declare-fun ssub (Str Int Int) Str)",
			"(declare-const str_empty Str)",
			"(assert (= (slen str_empty) 0))",
		)
	}
	return s
}

func (s *Script) emit(cmd string) { s.cmds = append(s.cmds, cmd) }

func (s *Script) fresh(prefix string) string {
	s.nfresh++
	return fmt.Sprintf("%s!%d", sanitize(prefix), s.nfresh)
}

func (s *Script) strSort() string {
	if s.strSMT {
		return "String"
	}
	return "Str"
}

// declare introduces a fresh constant of the given sort.
func (s *Script) declare(prefix, sortName string) string {
	n := s.fresh(prefix)
	s.emit(fmt.Sprintf("(declare-const %s %s)", n, sortName))
	return n
}

// define introduces a named abbreviation for a term.
func (s *Script) define(prefix, sortName, term string) string {
	if len(term) < 40 && !strings.ContainsAny(term, " ") {
		return term
	}
	n := s.fresh(prefix)
	s.emit(fmt.Sprintf("(define-fun %s () %s %s)", n, sortName, term))
	return n
}

func (s *Script) assume(term string) {
	if term == "true" {
		return
	}
	s.emit("(assert " + term + ")")
}

func sanitize(x string) string {
	var b strings.Builder
	for _, r := range x {
		switch {
		case r >= 'a' && r <= 'z', r >= 'A' && r <= 'Z', r >= '0' && r <= '9', r == '_':
			b.WriteRune(r)
		case r == '.', r == '/':
			b.WriteRune('_')
		case r == '*':
			b.WriteString("P")
		case r == '[':
			b.WriteString("L")
		case r == ']':
			b.WriteString("R")
		default:
			b.WriteString("_")
		}
	}
	out := b.String()
	if out == "" {
		out = "x"
	}
	return out
}

func typeKey(t types.Type) string {
	t = types.Unalias(t)
	return types.TypeString(t, func(p *types.Package) string { return p.Path() })
}

func shortTypeName(t types.Type) string {
	t = types.Unalias(t)
	s := types.TypeString(t, func(p *types.Package) string {
		parts := strings.Split(p.Path(), "/")
		return parts[len(parts)-1]
	})
	return sanitize(s)
}

// intInfo returns (bits, signed, ok) for integer types.
func intInfo(t types.Type) (int, bool, bool) {
	b, ok := t.Underlying().(*types.Basic)
	if !ok {
		return 0, false, false
	}
	switch b.Kind() {
	case types.Int8:
		return 8, true, true
	case types.Int16:
		return 16, true, true
	case types.Int32:
		return 32, true, true
	case types.Int64, types.Int:
		return 64, true, true
	case types.Uint8:
		return 8, false, true
	case types.Uint16:
		return 16, false, true
	case types.Uint32:
		return 32, false, true
	case types.Uint64, types.Uint, types.Uintptr:
		return 64, false, true
	case types.UntypedInt, types.UntypedRune:
		return 0, true, true
	}
	return 0, false, false
}

func pow2(n int) *big.Int { return new(big.Int).Lsh(big.NewInt(1), uint(n)) }

func intRange(bits int, signed bool) (lo, hi *big.Int) {
	if signed {
		lo = new(big.Int).Neg(pow2(bits - 1))
		hi = new(big.Int).Sub(pow2(bits-1), big.NewInt(1))
	} else {
		lo = big.NewInt(0)
		hi = new(big.Int).Sub(pow2(bits), big.NewInt(1))
	}
	return
}

func smtInt(x *big.Int) string {
	if x.Sign() < 0 {
		return "(- " + new(big.Int).Neg(x).String() + ")"
	}
	return x.String()
}

// sortOf maps a Go type to its SMT sort, declaring datatypes on demand.
func (s *Script) sortOf(t types.Type) string {
	switch u := t.(type) {
	case *types.Named:
		if st, ok := u.Underlying().(*types.Struct); ok {
			return s.structSort(t, st)
		}
		return s.sortOf(u.Underlying())
	case *types.Alias:
		return s.sortOf(types.Unalias(t))
	case *types.Basic:
		if _, _, ok := intInfo(u); ok {
			if s.bv {
				bits, _, _ := intInfo(u)
				if bits == 0 {
					bits = 64
				}
				return fmt.Sprintf("(_ BitVec %d)", bits)
			}
			return "Int"
		}
		switch u.Kind() {
		case types.Bool, types.UntypedBool:
			return "Bool"
		case types.String, types.UntypedString:
			return s.strSort()
		case types.Float32, types.Float64, types.UntypedFloat:
			return "Real"
		case types.UnsafePointer, types.UntypedNil:
			return "Int"
		}
		return "Int"
	case *types.Pointer, *types.Map, *types.Chan, *types.Signature, *types.Interface:
		return "Int"
	case *types.Slice:
		return "Slice"
	case *types.Array:
		return "(Array Int " + s.sortOf(u.Elem()) + ")"
	case *types.Struct:
		return s.structSort(t, u)
	case *types.TypeParam:
		return "Int"
	case *types.Tuple:
		return "Int"
	}
	return "Int"
}

func (s *Script) structName(t types.Type) string {
	return "T_" + shortTypeName(t) + "_" + fmt.Sprint(s.keyID(typeKey(t)))
}

func (s *Script) keyID(k string) int {
	if id, ok := s.tagIDs[k]; ok {
		return id
	}
	id := len(s.tagIDs) + 1
	s.tagIDs[k] = id
	return id
}

func (s *Script) structSort(t types.Type, st *types.Struct) string {
	key := typeKey(t)
	if n, ok := s.sorts[key]; ok {
		return n
	}
	name := s.structName(t)
	s.sorts[key] = name
	var fields []string
	for i := 0; i < st.NumFields(); i++ {
		f := st.Field(i)
		fields = append(fields, fmt.Sprintf("(%s %s)", s.accessor(t, i), s.sortOf(f.Type())))
	}
	if len(fields) == 0 {
		fields = append(fields, fmt.Sprintf("(%s__unit Int)", name))
	}
	s.prelude = append(s.prelude, fmt.Sprintf("(declare-datatypes ((%s 0)) (((mk_%s %s))))", name, name, strings.Join(fields, " ")))
	return name
}

func (s *Script) accessor(t types.Type, i int) string {
	st := t.Underlying().(*types.Struct)
	return s.structName(t) + "__" + sanitize(st.Field(i).Name()) + fmt.Sprint(i)
}

func (s *Script) mkStruct(t types.Type, fields []string) string {
	name := s.sortOf(t)
	if len(fields) == 0 {
		return "(mk_" + name + " 0)"
	}
	return "(mk_" + name + " " + strings.Join(fields, " ") + ")"
}

// updField returns term with field i replaced by v.
func (s *Script) updField(t types.Type, term string, i int, v string) string {
	st := t.Underlying().(*types.Struct)
	fs := make([]string, st.NumFields())
	for j := range fs {
		if j == i {
			fs[j] = v
		} else {
			fs[j] = "(" + s.accessor(t, j) + " " + term + ")"
		}
	}
	return s.mkStruct(t, fs)
}

func (s *Script) intLit(t types.Type, x *big.Int) string {
	if s.bv {
		bits, _, _ := intInfo(t)
		if bits == 0 {
			bits = 64
		}
		m := new(big.Int).Mod(x, pow2(bits))
		return fmt.Sprintf("(_ bv%s %d)", m.String(), bits)
	}
	return smtInt(x)
}

// zero returns the zero value term of a type.
func (s *Script) zero(t types.Type) string {
	switch u := t.Underlying().(type) {
	case *types.Basic:
		if _, _, ok := intInfo(u); ok {
			return s.intLit(t, big.NewInt(0))
		}
		switch u.Kind() {
		case types.Bool, types.UntypedBool:
			return "false"
		case types.String, types.UntypedString:
			return s.strLit("")
		case types.Float32, types.Float64, types.UntypedFloat:
			return "0.0"
		}
		return "0"
	case *types.Slice:
		return "(mk_slice 0 0 0 0)"
	case *types.Array:
		return s.constArr(s.sortOf(t), s.zero(u.Elem()))
	case *types.Struct:
		fs := make([]string, u.NumFields())
		for i := range fs {
			fs[i] = s.zero(u.Field(i).Type())
		}
		return s.mkStruct(t, fs)
	}
	return "0"
}

// constArr returns an array all of whose elements are val. Solvers accept
// `(as const ...)` only for literal values; values mentioning uninterpreted
// constants (the empty string of the abstract string sort) get a fresh array
// constant with a quantified definition instead.
func (s *Script) constArr(arrSort, val string) string {
	if !strings.Contains(val, "str_") {
		return "((as const " + arrSort + ") " + val + ")"
	}
	key := "carr:" + arrSort + ":" + val
	if n, ok := s.sorts[key]; ok {
		return n
	}
	n := fmt.Sprintf("carr_%d", len(s.sorts))
	s.sorts[key] = n
	s.prelude = append(s.prelude, fmt.Sprintf("(declare-const %s %s)", n, arrSort),
		fmt.Sprintf("(assert (forall ((ci! Int)) (! (= (select %s ci!) %s) :pattern ((select %s ci!)))))", n, val, n))
	return n
}

func (s *Script) strLit(x string) string {
	if s.strSMT {
		var b strings.Builder
		b.WriteByte('"')
		for i := 0; i < len(x); i++ {
			c := x[i]
			if c == '"' {
				b.WriteString("\"\"")
			} else if c < 32 || c > 126 || c == '\\' {
				fmt.Fprintf(&b, "\\u{%x}", c)
			} else {
				b.WriteByte(c)
			}
		}
		b.WriteByte('"')
		return b.String()
	}
	if x == "" {
		return "str_empty"
	}
	if n, ok := s.strLits[x]; ok {
		return n
	}
	n := fmt.Sprintf("str_lit_%d", len(s.strLits)+1)
	s.strLits[x] = n
	s.strOrder = append(s.strOrder, x)
	return n
}

// useStr adds the axioms of a string operation the first time it is used
// (kept lazy: quantified axioms make satisfiable queries hard for the solvers).
func (s *Script) useStr(feature string) {
	if s.strSMT || s.uf["str:"+feature] {
		return
	}
	s.uf["str:"+feature] = true
	switch feature {
	case "len":
		s.prelude = append(s.prelude,
			"(assert (forall ((s Str)) (! (and (>= (slen s) 0) (<= (slen s) 9223372036854775807)) :pattern ((slen s)))))",
			"(assert (forall ((s Str)) (! (=> (= (slen s) 0) (= s str_empty)) :pattern ((slen s)))))")
	case "concat":
		s.useStr("len")
		s.prelude = append(s.prelude,
			"(assert (forall ((a Str) (b Str)) (! (= (slen (sconcat a b)) (+ (slen a) (slen b))) :pattern ((sconcat a b)))))")
	case "lt":
		s.prelude = append(s.prelude,
			"(assert (forall ((a Str)) (! (not (slt a a)) :pattern ((slt a a)))))",
			"(assert (forall ((a Str) (b Str)) (! (=> (slt a b) (not (slt b a))) :pattern ((slt a b)))))",
			"(assert (forall ((a Str) (b Str)) (! (or (slt a b) (slt b a) (= a b)) :pattern ((slt a b)))))",
			"(assert (forall ((a Str) (b Str) (c Str)) (! (=> (and (slt a b) (slt b c)) (slt a c)) :pattern ((slt a b) (slt b c)))))")
	}
}

// strPrelude declares string literal constants (distinct, with known length and
// bytes for short literals).
func (s *Script) strPrelude() []string {
	if s.strSMT || len(s.strOrder) == 0 {
		return nil
	}
	var out []string
	names := []string{"str_empty"}
	for _, x := range s.strOrder {
		n := s.strLits[x]
		names = append(names, n)
		out = append(out, fmt.Sprintf("(declare-const %s Str)", n))
		out = append(out, fmt.Sprintf("(assert (= (slen %s) %d))", n, len(x)))
		if len(x) <= 16 {
			for i := 0; i < len(x); i++ {
				out = append(out, fmt.Sprintf("(assert (= (sat %s %d) %d))", n, i, x[i]))
			}
		}
	}
	if len(names) > 1 {
		out = append(out, "(assert (distinct "+strings.Join(names, " ")+"))")
	}
	return out
}

// typeInv returns a formula constraining a term of Go type t to the values
// that type can hold (integer ranges, slice header sanity). Machine integers
// are modelled exactly: this is where their range comes from.
func (s *Script) typeInv(t types.Type, term string) string {
	cs := s.typeInvList(t, term, 0)
	return and(cs...)
}

func (s *Script) typeInvList(t types.Type, term string, depth int) []string {
	if depth > 6 {
		return nil
	}
	switch u := t.Underlying().(type) {
	case *types.Basic:
		if bits, signed, ok := intInfo(u); ok && !s.bv && bits > 0 {
			lo, hi := intRange(bits, signed)
			return []string{fmt.Sprintf("(<= %s %s)", smtInt(lo), term), fmt.Sprintf("(<= %s %s)", term, smtInt(hi))}
		}
		if s.strSMT && u.Info()&types.IsString != 0 {
			// Go strings are byte sequences: every character code is at most 255
			// (strbytes is `true` unless the script looks at individual characters: with more
			// characters than Go has, every other operation still agrees with Go on Go's strings,
			// so proofs stay valid and the solvers are several times faster)
			return []string{"(strbytes " + term + ")"}
		}
	case *types.Pointer, *types.Map, *types.Chan, *types.Signature:
		return []string{"(>= " + term + " 0)"}
	case *types.Slice:
		return []string{
			"(>= (s_base " + term + ") 0)", "(>= (s_off " + term + ") 0)",
			"(>= (s_len " + term + ") 0)", "(<= (s_len " + term + ") (s_cap " + term + "))",
			"(=> (= (s_base " + term + ") 0) (= (s_cap " + term + ") 0))",
			"(<= (+ (s_off " + term + ") (s_cap " + term + ")) 9223372036854775807)",
		}
	case *types.Struct:
		var out []string
		for i := 0; i < u.NumFields(); i++ {
			out = append(out, s.typeInvList(u.Field(i).Type(), "("+s.accessor(t, i)+" "+term+")", depth+1)...)
		}
		return out
	case *types.Array:
		if u.Len() <= 8 {
			var out []string
			for i := int64(0); i < u.Len(); i++ {
				out = append(out, s.typeInvList(u.Elem(), fmt.Sprintf("(select %s %d)", term, i), depth+1)...)
			}
			return out
		}
		inner := s.typeInvList(u.Elem(), "(select "+term+" ti!)", depth+1)
		if len(inner) > 0 {
			return []string{"(forall ((ti! Int)) (! " + and(inner...) + " :pattern ((select " + term + " ti!))))"}
		}
	}
	return nil
}

func and(cs ...string) string {
	var out []string
	for _, c := range cs {
		if c == "true" || c == "" {
			continue
		}
		if c == "false" {
			return "false"
		}
		out = append(out, c)
	}
	switch len(out) {
	case 0:
		return "true"
	case 1:
		return out[0]
	}
	return "(and " + strings.Join(out, " ") + ")"
}

func or(cs ...string) string {
	var out []string
	for _, c := range cs {
		if c == "false" || c == "" {
			continue
		}
		if c == "true" {
			return "true"
		}
		out = append(out, c)
	}
	switch len(out) {
	case 0:
		return "false"
	case 1:
		return out[0]
	}
	return "(or " + strings.Join(out, " ") + ")"
}

func not(c string) string {
	switch c {
	case "true":
		return "false"
	case "false":
		return "true"
	}
	if strings.HasPrefix(c, "(not ") && balancedSingle(c[5:len(c)-1]) {
		return c[5 : len(c)-1]
	}
	return "(not " + c + ")"
}

func balancedSingle(x string) bool {
	depth := 0
	for i, r := range x {
		switch r {
		case '(':
			depth++
		case ')':
			depth--
			if depth == 0 && i != len(x)-1 {
				return false
			}
			if depth < 0 {
				return false
			}
		case ' ':
			if depth == 0 {
				return false
			}
		}
	}
	return depth == 0
}

func implies(a, b string) string {
	if a == "true" {
		return b
	}
	if b == "true" || a == "false" {
		return "true"
	}
	return "(=> " + a + " " + b + ")"
}

func ite(c, a, b string) string {
	if c == "true" {
		return a
	}
	if c == "false" {
		return b
	}
	if a == b {
		return a
	}
	return "(ite " + c + " " + a + " " + b + ")"
}

// heap array naming ---------------------------------------------------------

func heapKeyObj(t types.Type) string   { return "H:" + typeKey(t) }
func heapKeySlice(t types.Type) string { return "S:" + typeKey(t) }
func heapKeyMapP(m *types.Map) string  { return "MP:" + typeKey(m) }
func heapKeyMapV(m *types.Map) string  { return "MV:" + typeKey(m) }
func heapKeyMapL(m *types.Map) string  { return "ML:" + typeKey(m) }
func heapKeyGlobal(name string) string { return "G:" + name }

func (s *Script) heapSort(key string, t types.Type) string {
	if so, ok := s.heapDecl[key]; ok {
		return so
	}
	var so string
	switch {
	case strings.HasPrefix(key, "H:"):
		so = "(Array Int " + s.sortOf(t) + ")"
	case strings.HasPrefix(key, "S:"):
		so = "(Array Int (Array Int " + s.sortOf(t) + "))"
	case strings.HasPrefix(key, "MP:"):
		so = "(Array Int (Array " + s.sortOf(t.(*types.Map).Key()) + " Bool))"
	case strings.HasPrefix(key, "MV:"):
		so = "(Array Int (Array " + s.sortOf(t.(*types.Map).Key()) + " " + s.sortOf(t.(*types.Map).Elem()) + "))"
	case strings.HasPrefix(key, "ML:"):
		so = "(Array Int Int)"
	case strings.HasPrefix(key, "G:"):
		so = s.sortOf(t)
	}
	s.heapDecl[key] = so
	s.heapT[key] = t
	return so
}

// render produces the text of the script prefix [0,n) with the prelude.
func (s *Script) render(n int) string {
	var b strings.Builder
	b.WriteString("(set-option :produce-models true)\n(set-logic ALL)\n")
	for _, p := range s.prelude {
		b.WriteString(p)
		b.WriteByte('\n')
	}
	for _, p := range s.strPrelude() {
		b.WriteString(p)
		b.WriteByte('\n')
	}
	if s.strSMT {
		if s.strBytes {
			b.WriteString("(define-fun strbytes ((s String)) Bool (str.in_re s (re.* (re.range \"\\u{0}\" \"\\u{ff}\"))))\n")
		} else {
			b.WriteString("(define-fun strbytes ((s String)) Bool true)\n")
		}
	}
	if n > len(s.cmds) {
		n = len(s.cmds)
	}
	for _, c := range s.cmds[:n] {
		b.WriteString(c)
		b.WriteByte('\n')
	}
	return b.String()
}

func sortedKeys[M ~map[string]T, T any](m M) []string {
	out := make([]string, 0, len(m))
	for k := range m {
		out = append(out, k)
	}
	sort.Strings(out)
	return out
}
