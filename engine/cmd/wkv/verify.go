package main

// Top-level verification of one function under contract: generates all
// obligations (DESIGN.md 3.1, 3.9).

import (
	"fmt"
	"go/types"
	"os"
	"path/filepath"
	"regexp"
	"sort"
	"strings"
	"sync"
	"time"

	"golang.org/x/tools/go/ssa"
)

type FuncResult struct {
	Key      string
	Obls     []*Obligation
	Script   *Script
	Notes    []string
	Trusted  []string
	Err      string
	Contract *Contract
	Called   []string
	Port     bool
	// UnknownLoopIdents: locals that untagged loop clauses name and the function no longer has
	UnknownLoopIdents []string
}

// verifyFunc builds the obligations of one function.
func verifyFunc(prog *Program, cs *ContractSet, full string, c *Contract, kfs []*KnownFinding) (res *FuncResult) {
	res = verifyFuncRenamed(prog, cs, full, c, kfs, nil)
	if res.Err != "" || len(res.UnknownLoopIdents) == 0 || c.Lemma {
		return res
	}
	if r := verifyFuncTryRenames(prog, cs, full, c, kfs, res); r != res {
		return r
	}
	return crossLoopFallback(prog, cs, full, c, kfs, res)
}

func verifyFuncTryRenames(prog *Program, cs *ContractSet, full string, c *Contract, kfs []*KnownFinding, res *FuncResult) *FuncResult {
	if len(res.UnknownLoopIdents) > 2 {
		return res
	}
	// Rename tolerance. An untagged loop invariant (proof structure, never a property clause)
	// names a local the function no longer has - typically because the local was renamed.
	// Try the function's locals that the contract does not mention in its place; a
	// substitution is accepted only if every loop clause can be evaluated with it and every
	// invariant obligation of the function is proved, so nothing is assumed: the invariants
	// are simply proved about the variable that now plays that role.
	fn := prog.findFunc(c.Pkg, c.Key)
	if fn == nil {
		return res
	}
	for _, u := range res.UnknownLoopIdents {
		if identUsedOutsideUntaggedLoopClauses(c, u) {
			return res
		}
	}
	cands := unusedLocalNames(fn, c)
	if len(cands) == 0 || len(cands) > 8 {
		return res
	}
	var maps []map[string]string
	us := res.UnknownLoopIdents
	for _, a := range cands {
		if len(us) == 1 {
			maps = append(maps, map[string]string{us[0]: a})
			continue
		}
		for _, b := range cands {
			if a != b {
				maps = append(maps, map[string]string{us[0]: a, us[1]: b})
			}
		}
	}
	for _, m := range maps {
		r2 := verifyFuncRenamed(prog, cs, full, c, kfs, m)
		if r2.Err != "" || len(r2.UnknownLoopIdents) > 0 {
			continue
		}
		if !invariantObligationsHold(r2) {
			continue
		}
		var parts []string
		for _, k := range sortedKeys(m) {
			parts = append(parts, k+" -> "+m[k])
		}
		r2.Notes = append(r2.Notes, fmt.Sprintf("%s: loop invariants name a local the function no longer has; proved with the local that took its place (%s)", full, strings.Join(parts, ", ")))
		return r2
	}
	return res
}

// crossLoopFallback: a loop was rewritten so that an invariant of it cannot be evaluated any
// more (and no plain rename explains it). The facts the rest of the proof needs from that loop
// are usually spelled out again in the invariants of the loops after it, so every conjunct of
// every untagged invariant of the function is tried as a candidate invariant on every loop
// (proved inductive or dropped, like all candidates). Used only when drift was detected, so it
// costs nothing on an unchanged function.
func crossLoopFallback(prog *Program, cs *ContractSet, full string, c *Contract, kfs []*KnownFinding, res *FuncResult) *FuncResult {
	r2 := verifyFuncCross(prog, cs, full, c, kfs)
	if r2.Err != "" {
		return res
	}
	r2.Notes = append(r2.Notes, fmt.Sprintf("%s: a loop invariant no longer fits its loop; the conjuncts of the function's other untagged invariants were tried as candidate invariants on every loop", full))
	return r2
}

// identUsedOutsideUntaggedLoopClauses: the name occurs in a clause that carries a property
// tag or is not a loop invariant / decreases clause (there a substitution could change what
// the property clause says, so none is tried).
func identUsedOutsideUntaggedLoopClauses(c *Contract, name string) bool {
	re := regexp.MustCompile(`(^|[^A-Za-z0-9_.])` + regexp.QuoteMeta(name) + `($|[^A-Za-z0-9_])`)
	in := func(cl *Clause) bool { return cl != nil && re.MatchString(cl.Src) }
	for _, cl := range c.Requires {
		if in(cl) {
			return true
		}
	}
	for _, cl := range c.Ensures {
		if in(cl) {
			return true
		}
	}
	for _, cc := range c.Calls {
		for _, cl := range cc.Asserts {
			if in(cl) {
				return true
			}
		}
		for _, cl := range cc.Assumes {
			if in(cl) {
				return true
			}
		}
	}
	for _, lc := range c.Loops {
		for _, cl := range lc.Invariants {
			if cl.Tag != "" && in(cl) {
				return true
			}
		}
		for _, cl := range lc.Latch {
			if in(cl) {
				return true
			}
		}
	}
	return false
}

// unusedLocalNames: named locals of fn (not parameters) that no clause of the contract mentions.
func unusedLocalNames(fn *ssa.Function, c *Contract) []string {
	names := map[string]bool{}
	for _, b := range fn.Blocks {
		for _, in := range b.Instrs {
			switch i := in.(type) {
			case *ssa.Phi:
				if i.Comment != "" {
					names[i.Comment] = true
				}
			case *ssa.Alloc:
				if i.Comment != "" {
					names[i.Comment] = true
				}
			case *ssa.DebugRef:
				if o := i.Object(); o != nil {
					names[o.Name()] = true
				}
			}
		}
	}
	for _, p := range fn.Params {
		delete(names, p.Name())
	}
	var all []string
	add := func(cl *Clause) {
		if cl != nil {
			all = append(all, cl.Src)
		}
	}
	for _, cl := range c.Requires {
		add(cl)
	}
	for _, cl := range c.Ensures {
		add(cl)
	}
	for _, cc := range c.Calls {
		for _, cl := range cc.Asserts {
			add(cl)
		}
		for _, cl := range cc.Assumes {
			add(cl)
		}
	}
	for _, lc := range c.Loops {
		for _, cl := range lc.Invariants {
			add(cl)
		}
		for _, cl := range lc.Latch {
			add(cl)
		}
		add(lc.Decreases)
	}
	text := strings.Join(all, "\n")
	var out []string
	for _, n := range sortedKeys(names) {
		if n == "_" || strings.HasPrefix(n, "rangeindex") {
			continue
		}
		re := regexp.MustCompile(`(^|[^A-Za-z0-9_.])` + regexp.QuoteMeta(n) + `($|[^A-Za-z0-9_])`)
		if !re.MatchString(text) {
			out = append(out, n)
		}
	}
	return out
}

// invariantObligationsHold: every loop-invariant obligation of the result is proved (short
// timeout, as in the candidate-invariant rounds).
func invariantObligationsHold(res *FuncResult) bool {
	ok := true
	var mu sync.Mutex
	var wg sync.WaitGroup
	n := 0
	for _, o := range res.Obls {
		if o.Kind != "inv-entry" && o.Kind != "inv-step" {
			continue
		}
		n++
		o := o
		wg.Add(1)
		autoSem <- struct{}{}
		go func() {
			defer wg.Done()
			defer func() { <-autoSem }()
			dir, err := os.MkdirTemp("", "wkv-ren")
			if err != nil {
				mu.Lock()
				ok = false
				mu.Unlock()
				return
			}
			defer os.RemoveAll(dir)
			r := solve(buildQuery(res.Script, o, false), filepath.Join(dir, "q.smt2"), 5, 0, false)
			if r.Status != "unsat" {
				mu.Lock()
				ok = false
				mu.Unlock()
			}
		}()
	}
	wg.Wait()
	return ok && n > 0
}

func verifyFuncCross(prog *Program, cs *ContractSet, full string, c *Contract, kfs []*KnownFinding) *FuncResult {
	return verifyFuncRenamed(prog, cs, full, c, kfs, map[string]string{"$cross-loop": "on"})
}

func verifyFuncRenamed(prog *Program, cs *ContractSet, full string, c *Contract, kfs []*KnownFinding, renames map[string]string) (res *FuncResult) {
	// auto-invariants: Houdini. Candidates are assumed at the loop head and checked at every
	// back edge; a candidate whose step is not proved is dropped and the function is
	// regenerated, until every remaining candidate is inductive together with the others.
	// The surviving candidates are ordinary invariants: their step obligations stay in the
	// result and are discharged again with the rest.
	dropped := map[string]bool{}
	for round := 0; ; round++ {
		t0 := time.Now()
		res = verifyFuncOnce(prog, cs, full, c, kfs, dropped, renames)
		if os.Getenv("WKV_DEBUG_AUTO") != "" {
			fmt.Fprintf(os.Stderr, "auto: %s round %d gen %dms obls %d dropped %d\n", full, round, time.Since(t0).Milliseconds(), len(res.Obls), len(dropped))
		}
		if res.Err != "" || round > 20 {
			return res
		}
		var failed []string
		var mu sync.Mutex
		var wg sync.WaitGroup
		sem := autoSem
		for _, o := range res.Obls {
			if o.Auto == "" {
				continue
			}
			o := o
			wg.Add(1)
			sem <- struct{}{}
			go func() {
				defer wg.Done()
				defer func() { <-sem }()
				dir, err := os.MkdirTemp("", "wkv-auto")
				if err != nil {
					return
				}
				defer os.RemoveAll(dir)
				r := solve(buildQuery(res.Script, o, false), filepath.Join(dir, "q.smt2"), 5, 0, false)
				if r.Status != "unsat" {
					mu.Lock()
					failed = append(failed, o.Auto)
					mu.Unlock()
				}
			}()
		}
		wg.Wait()
		if os.Getenv("WKV_DEBUG_AUTO") != "" {
			fmt.Fprintf(os.Stderr, "auto: %s round %d solved in %dms failed %v\n", full, round, time.Since(t0).Milliseconds(), failed)
		}
		if len(failed) == 0 {
			return res
		}
		for _, f := range failed {
			dropped[f] = true
		}
	}
}

// genMu: VC generation is sequential: go/ssa and go/types build some structures lazily and
// a crash there would be a false alarm; only solver runs are parallel.
var genMu sync.Mutex

// autoSem bounds the solver processes of all candidate-invariant rounds together.
var autoSem = make(chan struct{}, 14)

func verifyFuncOnce(prog *Program, cs *ContractSet, full string, c *Contract, kfs []*KnownFinding, dropAuto map[string]bool, renames map[string]string) (res *FuncResult) {
	genMu.Lock()
	defer genMu.Unlock()
	res = &FuncResult{Key: full, Contract: c}
	defer func() {
		if r := recover(); r != nil {
			if ce, ok := r.(contractError); ok {
				res.Err = string(ce)
				return
			}
			panic(r)
		}
	}()
	s := newScript(c.Mode == "bv", c.Strings == "smt")
	x := &Exec{prog: prog, s: s, cs: cs, maxDepth: 12, kfs: kfs, dropAuto: dropAuto, renames: renames}
	res.Script = s
	if c.Lemma {
		x.verifyLemma(c, res)
	} else {
		fn := prog.findFunc(c.Pkg, c.Key)
		if fn == nil && prog.isInterfaceMethod(c.Pkg, c.Key) {
			// port contract: an interface method has no body; the contract is assumed at
			// call sites and listed in the trusted base (implementations are verified
			// separately where a contract with the same clauses is given for them).
			res.Port = true
			return
		}
		if fn == nil {
			res.Err = fmt.Sprintf("contract names function %s which does not exist (contract-shape drift)", full)
			return
		}
		if fn.Blocks == nil {
			res.Err = fmt.Sprintf("function %s has no body", full)
			return
		}
		x.topFn = fn
		x.abstract = map[string]bool{}
		for _, n := range c.AbstractCalls {
			x.abstract[n] = true
		}
		x.verifyBody(fn, c, res)
	}
	res.Obls = x.obls
	res.Notes = x.notes
	res.UnknownLoopIdents = sortedKeys(x.unknownLoopIdents)
	for t := range x.trusted {
		res.Trusted = append(res.Trusted, t)
	}
	for k := range x.calledContracts {
		res.Called = append(res.Called, k)
	}
	return res
}

func (x *Exec) verifyBody(fn *ssa.Function, c *Contract, res *FuncResult) {
	appendLikeArg = x.appendLikeArgOf
	heapElemFields = x.heapElemFieldsOf
	st := &State{heap: map[string]string{}, base: 0, guard: "true"}
	a0 := x.s.declare("alloc0", "Int")
	x.s.assume("(>= " + a0 + " 0)")
	st.alloc = a0
	fr := &Frame{fn: fn, contract: c, top: true, safety: c.Safety}
	// parameters
	for _, p := range fn.Params {
		v := x.freshOfType(st, p.Type(), "p_"+p.Name())
		fr.params = append(fr.params, v)
	}
	// free variables of closures: cells with unknown contents
	for _, fv := range fn.FreeVars {
		v := x.freshOfType(st, fv.Type(), "fv_"+fv.Name())
		fr.bindings = append(fr.bindings, v)
	}
	x.topFrame = fr
	fr.entry = st.clone()
	// invariants given for loops this function no longer has: candidates for helper loops
	if nloops := len(findLoops(fn)); len(c.Loops) > 0 {
		var ords []int
		for n := range c.Loops {
			if n > nloops {
				ords = append(ords, n)
			}
		}
		sort.Ints(ords)
		for _, n := range ords {
			for _, inv := range c.Loops[n].Invariants {
				if inv.Tag != "" {
					// a property invariant migrates whole and is required where it lands
					x.orphanInvs = append(x.orphanInvs, inv)
					continue
				}
				for _, e := range splitConjuncts(inv.E) {
					x.orphanInvs = append(x.orphanInvs, &Clause{Kind: inv.Kind, Src: e.String(), E: e, Line: inv.Line, File: inv.File})
				}
			}
		}
		if len(x.orphanInvs) > 0 {
			x.note("%s: the contract has invariants for %d loop(s) the function no longer has; they are tried as candidate invariants on the loops of helpers without a contract", funcKey(fn), len(ords))
		}
	}
	// requires
	env := x.paramEnv(fr, st)
	var reqs []string
	for _, r := range c.Requires {
		f := env.evalBool(r.E)
		reqs = append(reqs, f)
		x.s.assume(f)
	}
	// vacuity guard: the precondition must be satisfiable
	x.addObl(&Obligation{Name: funcKey(fn) + "#cover.requires", Kind: "cover", Func: funcKey(fn), Guard: "true", Formula: "true", Cover: true, Src: "requires satisfiable"})
	results, out := x.execFunc(fr, st)
	for _, key := range sortedKeys(c.Calls) {
		if !fr.seenCalls[key] {
			// the call a clause is about is gone: each of its assert clauses is an obligation
			// that fails (the other obligations of the function are still reported)
			cc := c.Calls[key]
			if len(cc.Asserts) == 0 {
				// an assumption about a call that is gone is moot
				x.note("at-call assume for %s in %s matches no call any more and was ignored", key, funcKey(fn))
				continue
			}
			for i, a := range cc.Asserts {
				oname := fmt.Sprintf("%s#at-call.%s.%d", funcKey(fn), key, i+1)
				if a.Tag != "" {
					oname = fmt.Sprintf("%s#%s@%s", funcKey(fn), a.Tag, strings.Replace(key, "#", ".", 1))
				}
				x.addObl(&Obligation{Name: oname, Kind: "assert", Tag: a.Tag, Func: funcKey(fn), Guard: "true", Formula: "false",
					Src: a.Src + "  [the function no longer contains the call " + key + " this clause is about (contract-shape drift)]"})
			}
		}
	}
	for n := range c.Loops {
		found := false
		for _, li := range fr.loops {
			if li.ordinal == n {
				found = true
			}
		}
		if !found {
			// A loop clause for a loop that is no longer there (the loop was rewritten as
			// straight-line code, or merged): untagged invariants are proof structure only -
			// without them the remaining obligations can only get harder to prove, never
			// easier - so they are dropped with a note. A tagged (property) loop clause must
			// not vanish silently.
			tagged := false
			for _, inv := range c.Loops[n].Invariants {
				if inv.Tag != "" && !x.orphanPlaced[inv] {
					tagged = true
				}
			}
			for _, inv := range c.Loops[n].Latch {
				if inv.Tag != "" {
					tagged = true
				}
			}
			if tagged {
				panic(contractError(fmt.Sprintf("loop %d of %s does not exist but carries a property clause (contract-shape drift)", n, funcKey(fn))))
			}
			x.note("loop %d of %s no longer exists: its (untagged) loop clauses were ignored", n, funcKey(fn))
		}
	}
	if out == nil {
		x.note("function %s never returns normally", funcKey(fn))
		return
	}
	fname := funcKey(fn)
	penv := x.paramEnv(fr, out)
	penv.old = fr.entry
	penv.results = results
	penv.bindResultNames(fn, nil)
	penv.frame = fr
	penv.point = nil
	var rspec *ReplaySpec
	if len(c.Ensures) > 0 {
		rspec = x.buildReplaySpec(fr, results, out)
	}
	for i, e := range c.Ensures {
		esrc := e.Src
		f := func() (f string) {
			defer func() {
				if r := recover(); r != nil {
					if ce, ok := r.(contractError); ok {
						if strings.Contains(string(ce), "was executed before this point") || strings.Contains(string(ce), "unknown identifier") {
							// the clause is about a call the function no longer makes: a failing
							// obligation (the others are still generated), not a malformed contract
							f = "false"
							esrc = e.Src + "  [clause cannot be evaluated against the current code: " + string(ce) + "]"
							return
						}
						panic(contractError(fmt.Sprintf("%s:%d: %s", e.File, e.Line, string(ce))))
					}
					panic(r)
				}
			}()
			return penv.evalBool(e.E)
		}()
		name := fmt.Sprintf("%s#ensures%d", fname, i+1)
		if e.Tag != "" {
			name = fmt.Sprintf("%s#%s", fname, e.Tag)
		}
		x.addOblKF(&Obligation{Name: name, Kind: "post", Tag: e.Tag, Func: fname, Pos: fmt.Sprintf("%s:%d", shortPath(e.File), e.Line), Guard: out.guard, Formula: f, Src: esrc, Replay: rspec}, penv)
		// vacuity guard for conditional property clauses `A ==> B`: some execution must reach
		// the exit with A true, otherwise the clause says nothing (for instance because an
		// abstraction made that path infeasible)
		if imp, ok := e.E.(*CBin); ok && imp.Op == "==>" && e.Tag != "" {
			ante := func() (a string) {
				defer func() {
					if r := recover(); r != nil {
						if _, ok := r.(contractError); !ok {
							panic(r)
						}
						a = ""
					}
				}()
				return penv.evalBool(imp.L)
			}()
			if ante != "" && ante != "true" && !strings.Contains(ante, "(forall ") && !strings.Contains(ante, "(exists ") {
				x.addObl(&Obligation{Name: name + "#cover.antecedent", Kind: "cover", Func: fname, Pos: fmt.Sprintf("%s:%d", shortPath(e.File), e.Line), Guard: out.guard, Formula: ante, Cover: true, Src: "antecedent reachable: " + imp.L.String()})
			}
		}
	}
	// reachability of the normal exit (vacuity guard for postconditions)
	if len(c.Ensures) > 0 {
		x.addObl(&Obligation{Name: fname + "#cover.exit", Kind: "cover", Func: fname, Guard: out.guard, Formula: "true", Cover: true, Src: "normal exit reachable"})
	}
	// frame: assigns clause
	if c.HasAssigns || c.Pure {
		x.frameObligations(fr, c, out, penv)
	}
	x.inventoryObligations(fn, c)
	x.allowedCallsObligation(fn, c)
}

// allowedCallsObligation: the body (including its closures) calls only the
// listed callees — a syntactic obligation over the SSA ("no other call touches
// the protected resource").
func (x *Exec) allowedCallsObligation(fn *ssa.Function, c *Contract) {
	x.callsObligation(fn, c, c.AllowedCalls, false)
	x.callsObligation(fn, c, c.ForbiddenCalls, true)
}

func (x *Exec) callsObligation(fn *ssa.Function, c *Contract, ac *AllowedCalls, forbid bool) {
	if ac == nil {
		return
	}
	allowed := map[string]bool{}
	for _, n := range ac.Names {
		allowed[n] = true
	}
	var offenders []string
	var visit func(f *ssa.Function)
	visit = func(f *ssa.Function) {
		for _, b := range f.Blocks {
			for _, in := range b.Instrs {
				ci, ok := in.(ssa.CallInstruction)
				if !ok {
					continue
				}
				cc := ci.Common()
				name := ""
				switch {
				case cc.IsInvoke():
					name = cc.Method.Name()
				default:
					switch v := cc.Value.(type) {
					case *ssa.Builtin:
						continue
					case *ssa.Function:
						name = funcKey(v)
						if v.Pkg != nil && v.Pkg != fn.Pkg {
							name = v.Pkg.Pkg.Name() + "." + name
						}
					case *ssa.MakeClosure:
						continue // the closure body is visited below
					case *ssa.UnOp:
						// a closure variable kept in a cell (captured by another closure)
						if mc := uniqueClosureOfCell(v); mc != nil {
							name = funcKey(mc.Fn.(*ssa.Function))
						} else {
							name = "dynamic"
						}
					default:
						name = "dynamic"
					}
				}
				if allowed[name] == forbid {
					offenders = append(offenders, name+" ("+x.prog.pos(in.Pos())+")")
				}
			}
		}
		for _, af := range f.AnonFuncs {
			visit(af)
		}
	}
	visit(fn)
	kind := "allowed-calls"
	if forbid {
		kind = "forbidden-calls"
	}
	name := fmt.Sprintf("%s#%s", funcKey(fn), kind)
	if ac.Tag != "" {
		name = fmt.Sprintf("%s#%s.%s", funcKey(fn), ac.Tag, kind)
	}
	formula, src := "true", "the body calls only: "+strings.Join(ac.Names, ", ")
	if forbid {
		src = "the body calls none of: " + strings.Join(ac.Names, ", ")
	}
	if len(offenders) > 0 {
		formula = "false"
		src += "; offending calls: " + strings.Join(offenders, "; ")
	}
	x.addObl(&Obligation{Name: name, Kind: "inventory", Tag: ac.Tag, Func: funcKey(fn), Pos: fmt.Sprintf("%s:%d", shortPath(c.File), ac.Line), Guard: "true", Formula: formula, Src: src})
}

// inventoryObligations: "Type.field is referenced only in the listed functions" —
// a syntactic obligation over the SSA of the whole package (writer inventory,
// DESIGN.md C15/C30). A new reference elsewhere fails it.
func (x *Exec) inventoryObligations(fn *ssa.Function, c *Contract) {
	for _, inv := range c.Inventory {
		parts := strings.SplitN(inv.Field, ".", 2)
		if len(parts) != 2 {
			panic(contractError("bad inventory field " + inv.Field))
		}
		allowed := map[string]bool{}
		for _, w := range inv.Writers {
			allowed[w] = true
		}
		var offenders []string
		var offenderFns []*ssa.Function
		found := false
		var visit func(f *ssa.Function)
		visit = func(f *ssa.Function) {
			for _, b := range f.Blocks {
				for _, in := range b.Instrs {
					var st *types.Struct
					var named *types.Named
					var idx int
					switch i := in.(type) {
					case *ssa.FieldAddr:
						if pt, ok := i.X.Type().Underlying().(*types.Pointer); ok {
							named, _ = pt.Elem().(*types.Named)
							st, _ = pt.Elem().Underlying().(*types.Struct)
							idx = i.Field
						}
					case *ssa.Field:
						named, _ = i.X.Type().(*types.Named)
						st, _ = i.X.Type().Underlying().(*types.Struct)
						idx = i.Field
					}
					if named == nil || st == nil || named.Obj().Name() != parts[0] || st.Field(idx).Name() != parts[1] {
						continue
					}
					found = true
					root := f
					for root.Parent() != nil {
						root = root.Parent()
					}
					if !allowed[funcKey(f)] && !allowed[funcKey(root)] {
						offenders = append(offenders, funcKey(f)+" ("+x.prog.pos(in.Pos())+")")
						offenderFns = append(offenderFns, root)
					}
				}
			}
			for _, af := range f.AnonFuncs {
				visit(af)
			}
		}
		sp := fn.Pkg
		for _, m := range sp.Members {
			switch mm := m.(type) {
			case *ssa.Function:
				visit(mm)
			case *ssa.Type:
				for _, t := range []types.Type{mm.Type(), types.NewPointer(mm.Type())} {
					ms := sp.Prog.MethodSets.MethodSet(t)
					for i := 0; i < ms.Len(); i++ {
						if mf := sp.Prog.MethodValue(ms.At(i)); mf != nil && mf.Pkg == sp && mf.Synthetic == "" {
							visit(mf)
						}
					}
				}
			}
		}
		// A function outside the list whose every (static, same-package) caller is on the list
		// is a helper of those functions - typically a few lines extracted from one of them -
		// and counts as part of them. One level only: a function reached through an unlisted
		// function stays an offender.
		if len(offenders) > 0 {
			callers := map[*ssa.Function]map[*ssa.Function]bool{}
			var scan func(f *ssa.Function)
			scan = func(f *ssa.Function) {
				root := f
				for root.Parent() != nil {
					root = root.Parent()
				}
				for _, b := range f.Blocks {
					for _, in := range b.Instrs {
						if ci, ok := in.(ssa.CallInstruction); ok {
							if callee := ci.Common().StaticCallee(); callee != nil && callee.Pkg == sp0(fn) {
								if callers[callee] == nil {
									callers[callee] = map[*ssa.Function]bool{}
								}
								callers[callee][root] = true
							}
						}
					}
				}
				for _, af := range f.AnonFuncs {
					scan(af)
				}
			}
			for _, m := range fn.Pkg.Members {
				switch mm := m.(type) {
				case *ssa.Function:
					scan(mm)
				case *ssa.Type:
					for _, t := range []types.Type{mm.Type(), types.NewPointer(mm.Type())} {
						ms := fn.Pkg.Prog.MethodSets.MethodSet(t)
						for i := 0; i < ms.Len(); i++ {
							if mf := fn.Pkg.Prog.MethodValue(ms.At(i)); mf != nil && mf.Pkg == fn.Pkg && mf.Synthetic == "" {
								scan(mf)
							}
						}
					}
				}
			}
			var kept []string
			for i, of := range offenderFns {
				cs := callers[of]
				ok := len(cs) > 0
				for cf := range cs {
					if !allowed[funcKey(cf)] {
						ok = false
					}
				}
				if ok {
					x.note("inventory %s: %s is called only by listed functions and counts as part of them", inv.Field, funcKey(of))
					continue
				}
				kept = append(kept, offenders[i])
			}
			offenders = kept
		}
		name := fmt.Sprintf("%s#inventory.%s", funcKey(fn), inv.Field)
		if inv.Tag != "" {
			name = fmt.Sprintf("%s#%s.inventory.%s", funcKey(fn), inv.Tag, inv.Field)
		}
		formula := "true"
		src := fmt.Sprintf("%s is referenced only in: %s", inv.Field, strings.Join(inv.Writers, ", "))
		if len(offenders) > 0 || !found {
			formula = "false"
			src += "; offending references: " + strings.Join(offenders, "; ")
			if !found {
				src += " (field not found: contract-shape drift)"
			}
		}
		x.addObl(&Obligation{Name: name, Kind: "inventory", Tag: inv.Tag, Func: funcKey(fn), Pos: fmt.Sprintf("%s:%d", shortPath(c.File), inv.Line), Guard: "true", Formula: formula, Src: src})
	}
}

func shortPath(p string) string {
	if i := strings.Index(p, "/repo/"); i >= 0 {
		return p[i+6:]
	}
	return p
}

func (x *Exec) paramEnv(fr *Frame, st *State) *Env {
	env := &Env{x: x, pkg: x.prog.pkgOfFunc(fr.fn), names: map[string]V{}, cur: st, old: fr.entry, contract: fr.contract}
	for i, p := range fr.fn.Params {
		env.names[p.Name()] = fr.params[i]
	}
	for i, fv := range fr.fn.FreeVars {
		if i < len(fr.bindings) {
			b := fr.bindings[i]
			// captured variables are pointers to cells; expose the cell contents by name
			env.names["&"+fv.Name()] = b
		}
	}
	env.frame = fr
	return env
}

// frameObligations: every heap component changed by the function is covered by
// the assigns clause. For each heap array that differs between entry and exit,
// the exit array must equal the entry array overwritten at the assignable
// places only.
func (x *Exec) frameObligations(fr *Frame, c *Contract, out *State, env *Env) {
	fname := funcKey(fr.fn)
	entry := fr.entry
	// build, per heap key, the entry array with assignable places overwritten by exit values
	allowed := entry.clone()
	allowed.alloc = out.alloc
	oenv := *env
	oenv.cur = entry
	wholeHavoc := false
	exempt := map[string]bool{}
	for _, a := range c.Assigns {
		e, err := parseCExpr(a)
		if err != nil {
			panic(contractError(fmt.Sprintf("bad assigns %q: %v", a, err)))
		}
		if call, ok := e.(*CCall); ok {
			if id, ok := call.Fun.(*CIdent); ok {
				switch id.Name {
				case "elems":
					v := (&oenv).eval(call.Args[0])
					et := v.T.Underlying().(*types.Slice).Elem()
					key := heapKeySlice(et)
					cur := x.heapGet(allowed, key, et)
					outArr := x.heapGet(out, key, et)
					x.heapSet(allowed, key, et, "(store "+cur+" (s_base "+v.S+") (select "+outArr+" (s_base "+v.S+")))")
					continue
				case "mapof":
					v := (&oenv).eval(call.Args[0])
					mt := v.T.Underlying().(*types.Map)
					for _, k := range []string{heapKeyMapP(mt), heapKeyMapV(mt), heapKeyMapL(mt)} {
						cur := x.heapGet(allowed, k, mt)
						outArr := x.heapGet(out, k, mt)
						x.heapSet(allowed, k, mt, "(store "+cur+" "+v.S+" (select "+outArr+" "+v.S+"))")
					}
					continue
				case "anyobj", "anyelems":
					t, ok := (&oenv).tryType(call.Args[0])
					if !ok {
						panic(contractError(fmt.Sprintf("assigns %s: unknown type", a)))
					}
					if id.Name == "anyobj" {
						exempt[heapKeyObj(t)] = true
					} else {
						exempt[heapKeySlice(t)] = true
					}
					continue
				case "pointee":
					v := (&oenv).eval(call.Args[0])
					for _, ta := range call.Args[1:] {
						t, ok := (&oenv).tryType(ta)
						if !ok {
							panic(contractError(fmt.Sprintf("assigns %s: unknown type", a)))
						}
						pt := types.NewPointer(t)
						_, unbox := x.boxFuncs(pt)
						key := heapKeyObj(t)
						ref := "(" + unbox + " " + v.S + ")"
						al := x.heapGet(allowed, key, t)
						ov := x.heapGet(out, key, t)
						x.heapSet(allowed, key, t, ite(fmt.Sprintf("(= (itag %s) %d)", v.S, x.typeID(pt)), "(store "+al+" "+ref+" (select "+ov+" "+ref+"))", al))
					}
					continue
				case "all":
					wholeHavoc = true
					continue
				}
			}
		}
		pl := (&oenv).evalPlace(e)
		if pl == nil {
			panic(contractError(fmt.Sprintf("assigns clause %q does not denote a place", a)))
		}
		// exit value at that place
		val := x.applyPath(x.placeRootTerm(out, pl), pl.Path)
		x.storePlace(allowed, pl, val)
	}
	if wholeHavoc {
		return
	}
	keys := map[string]bool{}
	for k := range out.heap {
		keys[k] = true
	}
	if out.base != entry.base {
		x.note("frame of %s not checkable: the function havocs the whole heap", fname)
		x.addObl(&Obligation{Name: fname + "#frame.whole-heap-havoc", Kind: "frame", Func: fname, Guard: out.guard, Formula: "false", Src: "assigns clause cannot be checked: body has unknown effects"})
		return
	}
	for _, k := range sortedKeys(keys) {
		t := x.s.heapT[k]
		o := x.heapGet(out, k, t)
		e := x.heapGet(entry, k, t)
		if o == e || exempt[k] || isRangeCountKey(k) {
			continue
		}
		a := x.heapGet(allowed, k, t)
		var f string
		if strings.HasPrefix(k, "G:") {
			f = "(= " + o + " " + a + ")"
		} else {
			// objects allocated during the call are not part of the caller-visible frame
			f = fmt.Sprintf("(forall ((fr! Int)) (=> (and (>= fr! 1) (<= fr! %s)) (= (select %s fr!) (select %s fr!))))", entry.alloc, o, a)
		}
		x.addObl(&Obligation{Name: fmt.Sprintf("%s#frame.%s", fname, sanitize(shortHeapKey(k))), Kind: "frame", Func: fname, Guard: out.guard, Formula: f,
			Src: "only the assigns clause's places change in " + shortHeapKey(k)})
	}
}

// verifyLemma: a lemma has parameters, requires and ensures but no body.
func (x *Exec) verifyLemma(c *Contract, res *FuncResult) {
	st := &State{heap: map[string]string{}, base: 0, guard: "true"}
	a0 := x.s.declare("alloc0", "Int")
	x.s.assume("(>= " + a0 + " 0)")
	st.alloc = a0
	env := &Env{x: x, pkg: x.prog.typesPkg(c.Pkg), names: map[string]V{}, cur: st, old: st, contract: c}
	var inputs []ModelInput
	for _, p := range c.Params {
		if p.Typ == "int" || p.Typ == "math" {
			n := x.s.declare("p_"+p.Name, "Int")
			env.names[p.Name] = mathV(n)
			inputs = append(inputs, ModelInput{Name: p.Name, Term: n})
			continue
		}
		t := env.resolveType(p.Typ)
		v := x.freshOfType(st, t, "p_"+p.Name)
		env.names[p.Name] = v
		inputs = append(inputs, ModelInput{Name: p.Name, Term: v.S, T: t})
	}
	for _, r := range c.Requires {
		x.s.assume(env.evalBool(r.E))
	}
	name := strings.TrimPrefix(c.Key, "lemma:")
	x.addObl(&Obligation{Name: "lemma." + name + "#cover.requires", Kind: "cover", Func: c.Key, Guard: "true", Formula: "true", Cover: true, Src: "requires satisfiable", Inputs: inputs})
	for i, e := range c.Ensures {
		f := env.evalBool(e.E)
		n := fmt.Sprintf("lemma.%s#ensures%d", name, i+1)
		if e.Tag != "" {
			n = fmt.Sprintf("lemma.%s#%s", name, e.Tag)
		}
		x.addOblKF(&Obligation{Name: n, Kind: "lemma", Tag: e.Tag, Func: c.Key, Pos: fmt.Sprintf("%s:%d", shortPath(e.File), e.Line), Guard: "true", Formula: f, Src: e.Src, Inputs: inputs}, env)
	}
}

// modelInputs lists the terms whose model values describe a counterexample.
func (x *Exec) modelInputs(fr *Frame) []ModelInput {
	var out []ModelInput
	if fr == nil || fr.fn == nil {
		return nil
	}
	for i, p := range fr.fn.Params {
		v := fr.params[i]
		if v.S == "" {
			continue
		}
		out = append(out, ModelInput{Name: p.Name(), Term: v.S, T: p.Type()})
		// pointer parameters: the pointee at entry
		if pt, ok := p.Type().Underlying().(*types.Pointer); ok && fr.entry != nil {
			h := x.heapGet(fr.entry, heapKeyObj(pt.Elem()), pt.Elem())
			out = append(out, ModelInput{Name: "*" + p.Name(), Term: "(select " + h + " " + v.S + ")", T: pt.Elem()})
		}
	}
	return out
}

// addOblKF adds an obligation, splitting it by the regions of listed known
// findings (DESIGN.md 3.12): outside every region it must discharge; inside a
// region it is expected to be refuted (KNOWN-FINDING) until the defect is fixed.
func (x *Exec) addOblKF(o *Obligation, env *Env) {
	var regions []*KnownFinding
	for _, k := range x.kfs {
		if k.Status != "fixed" && k.Obligation == o.Name {
			regions = append(regions, k)
		}
	}
	if len(regions) == 0 {
		x.addObl(o)
		return
	}
	var rts []string
	for _, k := range regions {
		e, err := parseCExpr(k.Region)
		if err != nil {
			panic(contractError(fmt.Sprintf("known finding region %q: %v", k.Region, err)))
		}
		rts = append(rts, env.evalBool(e))
	}
	outside := *o
	outside.Region = not(or(rts...))
	x.addObl(&outside)
	for i, k := range regions {
		inside := *o
		inside.Name = fmt.Sprintf("%s@known-finding-%d", o.Name, i+1)
		inside.Region = rts[i]
		inside.KF = k
		x.addObl(&inside)
	}
}

// splitConjuncts: the top-level conjuncts of a clause.
func splitConjuncts(e CExpr) []CExpr {
	if b, ok := e.(*CBin); ok && b.Op == "&&" {
		return append(splitConjuncts(b.L), splitConjuncts(b.R)...)
	}
	// forall x: A && B  ==  (forall x: A) && (forall x: B)
	if q, ok := e.(*CQuant); ok && q.Forall {
		parts := splitConjuncts(q.Body)
		if len(parts) > 1 {
			var out []CExpr
			for _, p := range parts {
				out = append(out, &CQuant{Forall: true, Var: q.Var, Typ: q.Typ, Lo: q.Lo, Hi: q.Hi, Body: p})
			}
			return out
		}
	}
	return []CExpr{e}
}

func sp0(fn *ssa.Function) *ssa.Package { return fn.Pkg }
