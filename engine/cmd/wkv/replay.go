package main

// Replay of counterexamples against the real code (DESIGN.md 3.10).

import (
	"fmt"
	"strings"
	"os"
	"os/exec"
	"path/filepath"
	"time"
)

type BoundedResult struct {
	Name     string  `json:"name"`
	Bound    string  `json:"bound"`
	OK       bool    `json:"ok"`
	Cases    int     `json:"cases"`
	Seconds  float64 `json:"seconds"`
	Replay   string  `json:"replay,omitempty"`
	Label    string  `json:"label"`
	Skipped  bool    `json:"skipped,omitempty"`
}

func tryReplay(prog *Program, repo, verif, dir string, oc *oblOutcome) (string, bool) {
	return "", false
}

func runBounded(spec *PropertySpec, repo, verif, tier, prop, replayDir string) []BoundedResult {
	var out []BoundedResult
	for _, b := range spec.Bounded {
		if b.Tier == "thorough" && tier != "thorough" {
			continue
		}
		start := time.Now()
		r := BoundedResult{Name: b.Name, Bound: b.Bound, Label: "bounded (never counted as proved)"}
		ok, cases, log := runOverlayTest(repo, verif, b.Pkg, filepath.Join(verif, "bounded", b.File), b.Run, 600)
		r.OK, r.Cases = ok, cases
		r.Seconds = time.Since(start).Seconds()
		if !ok {
			os.MkdirAll(replayDir, 0o755)
			p := filepath.Join(replayDir, "bounded_"+sanitize(b.Name)+".txt")
			os.WriteFile(p, []byte("bounded stand-in "+b.Name+" failed ("+b.Bound+")\n\n"+log), 0o644)
			r.Replay = p
		}
		out = append(out, r)
	}
	return out
}

// runOverlayTest injects a test file into a package of /repo with `go test
// -overlay` (nothing is written into /repo) and runs it.
func runOverlayTest(repo, verif, pkgDir, src, run string, timeoutS int) (bool, int, string) {
	tmp, err := os.MkdirTemp("", "wkv-ov-")
	if err != nil {
		return false, 0, err.Error()
	}
	defer os.RemoveAll(tmp)
	target := filepath.Join(repo, pkgDir, "zz_wkv_replay_test.go")
	ov := `{"Replace":{"` + target + `":"` + src + `"}}`
	ovp := filepath.Join(tmp, "ov.json")
	os.WriteFile(ovp, []byte(ov), 0o644)
	cmd := exec.Command("go", "test", "-overlay", ovp, "-vet=off", "-count=1", "-timeout", (time.Duration(timeoutS) * time.Second).String(), "-run", "^"+run+"$", "-v", "./"+pkgDir)
	cmd.Dir = repo
	out, err := cmd.CombinedOutput()
	cases := 0
	// tests print "WKV-CASES <n>"
	for _, l := range splitLines(string(out)) {
		var n int
		if _, e := fmt.Sscanf(trimSpace(l), "WKV-CASES %d", &n); e == nil {
			cases += n
		}
	}
	return err == nil, cases, string(out)
}

func splitLines(s string) []string {
	var out []string
	cur := ""
	for _, r := range s {
		if r == '\n' {
			out = append(out, cur)
			cur = ""
		} else {
			cur += string(r)
		}
	}
	if cur != "" {
		out = append(out, cur)
	}
	return out
}

func trimSpace(s string) string { return strings.TrimSpace(s) }
