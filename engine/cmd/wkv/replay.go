package main

// Replay of counterexamples against the real code (DESIGN.md 3.10).
//
// For a refuted postcondition the solver's model is turned into a Go test that
// is injected into the function's package with `go test -overlay` (nothing is
// written into /repo). The test builds the model's inputs, calls the real
// function and prints what it returned (and the post-state of pointer
// arguments). The violation counts as reproduced when the real execution
// produces exactly the outputs the model predicted — i.e. the refuting
// execution the solver found is a real execution of the code.

import (
	"fmt"
	"go/types"
	"os"
	"os/exec"
	"path/filepath"
	"sort"
	"strconv"
	"strings"
	"time"

	"golang.org/x/tools/go/ssa"
)

type BoundedResult struct {
	Name    string  `json:"name"`
	Bound   string  `json:"bound"`
	OK      bool    `json:"ok"`
	Cases   int     `json:"cases"`
	Seconds float64 `json:"seconds"`
	Replay  string  `json:"replay,omitempty"`
	Label   string  `json:"label"`
	Skipped bool    `json:"skipped,omitempty"`
	// Findings: "key: what" lines the harness printed as WKV-FINDING - executions of the real
	// code that break the property; each must be a listed known finding or is a violation
	Findings []string `json:"findings,omitempty"`
	Log      string   `json:"-"`
}

// MNode describes one value of the model: a tree following the Go type.
type MNode struct {
	Path  string
	T     types.Type
	Kind  string // int bool str struct ptr slice array iface map func opaque
	Term  string // leaf term (int/bool/str identity/ref/handle) or "" for pure aggregates
	Aux   map[string]string // auxiliary terms: slen, base, off, len, cap, maplen
	Kids  []*MNode
	Names []string
	Val   string
	AuxV  map[string]string
}

type ReplaySpec struct {
	Fn      *ssa.Function
	Inputs  []*MNode // one per parameter
	Outputs []*MNode // results (r0..) and post-state pointees (post:<param>)
	StrLits map[string]string // literal const name -> text
	Safety  bool
}

const replayMaxElems = 4

// genNode builds the model tree for a value of type t denoted by term in state st.
func (x *Exec) genNode(st *State, t types.Type, term, path string, depth int) *MNode {
	n := &MNode{Path: path, T: t, Term: term, Aux: map[string]string{}}
	switch u := t.Underlying().(type) {
	case *types.Basic:
		switch {
		case u.Info()&types.IsInteger != 0:
			n.Kind = "int"
		case u.Info()&types.IsBoolean != 0:
			n.Kind = "bool"
		case u.Info()&types.IsString != 0:
			n.Kind = "str"
			if !x.s.strSMT {
				n.Aux["slen"] = "(slen " + term + ")"
			}
		default:
			n.Kind = "opaque"
		}
	case *types.Struct:
		n.Kind = "struct"
		n.Term = ""
		for i := 0; i < u.NumFields(); i++ {
			f := u.Field(i)
			n.Names = append(n.Names, f.Name())
			n.Kids = append(n.Kids, x.genNode(st, f.Type(), "("+x.s.accessor(t, i)+" "+term+")", path+"."+f.Name(), depth))
		}
	case *types.Pointer:
		n.Kind = "ptr"
		if depth < 3 {
			h := x.heapGet(st, heapKeyObj(u.Elem()), u.Elem())
			n.Kids = []*MNode{x.genNode(st, u.Elem(), "(select "+h+" "+term+")", path+".*", depth+1)}
		}
	case *types.Slice:
		n.Kind = "slice"
		n.Term = ""
		n.Aux["base"] = "(s_base " + term + ")"
		n.Aux["len"] = "(s_len " + term + ")"
		n.Aux["cap"] = "(s_cap " + term + ")"
		if depth < 3 {
			h := x.heapGet(st, heapKeySlice(u.Elem()), u.Elem())
			for i := 0; i < replayMaxElems; i++ {
				et := fmt.Sprintf("(select (select %s (s_base %s)) (+ (s_off %s) %d))", h, term, term, i)
				n.Kids = append(n.Kids, x.genNode(st, u.Elem(), et, fmt.Sprintf("%s[%d]", path, i), depth+1))
			}
		}
	case *types.Array:
		n.Kind = "array"
		n.Term = ""
		if u.Len() <= 32 {
			for i := int64(0); i < u.Len(); i++ {
				n.Kids = append(n.Kids, x.genNode(st, u.Elem(), fmt.Sprintf("(select %s %d)", term, i), fmt.Sprintf("%s[%d]", path, i), depth))
			}
		}
	case *types.Interface:
		n.Kind = "iface"
	case *types.Map:
		n.Kind = "map"
		n.Aux["maplen"] = x.mapLen(st, V{T: t, S: term})
	case *types.Signature:
		n.Kind = "func"
	default:
		n.Kind = "opaque"
	}
	return n
}

// observable: every component of the value is dumped by the replay test (no maps,
// interfaces, function values or opaque components).
func observable(n *MNode) bool {
	switch n.Kind {
	case "map", "iface", "func", "opaque":
		return false
	}
	for _, k := range n.Kids {
		if !observable(k) {
			return false
		}
	}
	return true
}

func (n *MNode) flatten(out *[]string, nodes *[]func(string)) {
	if n.Term != "" {
		*out = append(*out, n.Term)
		*nodes = append(*nodes, func(v string) { n.Val = v })
	}
	keys := sortedKeys(n.Aux)
	for _, k := range keys {
		k := k
		*out = append(*out, n.Aux[k])
		*nodes = append(*nodes, func(v string) {
			if n.AuxV == nil {
				n.AuxV = map[string]string{}
			}
			n.AuxV[k] = v
		})
	}
	for _, c := range n.Kids {
		c.flatten(out, nodes)
	}
}

// buildReplaySpec is called when a postcondition obligation is created.
func (x *Exec) buildReplaySpec(fr *Frame, results []V, out *State) *ReplaySpec {
	if fr == nil || fr.fn == nil || fr.fn.Parent() != nil || x.s.bv {
		return nil
	}
	rs := &ReplaySpec{Fn: fr.fn, StrLits: map[string]string{}}
	for i, p := range fr.fn.Params {
		v := fr.params[i]
		if v.S == "" {
			return nil
		}
		rs.Inputs = append(rs.Inputs, x.genNode(fr.entry, p.Type(), v.S, p.Name(), 0))
	}
	for i, r := range results {
		if r.S == "" {
			continue
		}
		rs.Outputs = append(rs.Outputs, x.genNode(out, r.T, r.S, fmt.Sprintf("r%d", i), 0))
	}
	for i, p := range fr.fn.Params {
		if pt, ok := p.Type().Underlying().(*types.Pointer); ok {
			h := x.heapGet(out, heapKeyObj(pt.Elem()), pt.Elem())
			rs.Outputs = append(rs.Outputs, x.genNode(out, pt.Elem(), "(select "+h+" "+fr.params[i].S+")", "post:"+p.Name()+".*", 1))
		}
	}
	return rs
}

// replay query ------------------------------------------------------------------

func (rs *ReplaySpec) terms(s *Script) ([]string, []func(string)) {
	var terms []string
	var setters []func(string)
	for _, n := range rs.Inputs {
		n.flatten(&terms, &setters)
	}
	for _, n := range rs.Outputs {
		n.flatten(&terms, &setters)
	}
	if !s.strSMT {
		names := []string{"str_empty"}
		rs.StrLits["str_empty"] = ""
		for _, lit := range s.strOrder {
			names = append(names, s.strLits[lit])
			rs.StrLits[s.strLits[lit]] = lit
		}
		for _, nm := range names {
			nm := nm
			terms = append(terms, nm)
			setters = append(setters, func(v string) { rs.StrLits["val:"+v] = rs.StrLits[nm] })
		}
	}
	return terms, setters
}

func (rs *ReplaySpec) smallBounds() []string {
	var out []string
	var walk func(n *MNode)
	walk = func(n *MNode) {
		if n.Kind == "slice" {
			out = append(out, fmt.Sprintf("(<= %s %d)", n.Aux["len"], replayMaxElems), fmt.Sprintf("(<= %s 16)", n.Aux["cap"]))
		}
		if n.Kind == "str" && n.Aux["slen"] != "" {
			out = append(out, fmt.Sprintf("(<= %s 12)", n.Aux["slen"]))
		}
		if n.Kind == "map" {
			out = append(out, fmt.Sprintf("(= %s 0)", n.Aux["maplen"]))
		}
		for _, c := range n.Kids {
			walk(c)
		}
	}
	for _, n := range rs.Inputs {
		walk(n)
	}
	return out
}

// sexpr parsing ------------------------------------------------------------------

type sx struct {
	atom string
	list []*sx
}

func parseSx(s string) []*sx {
	var stack [][]*sx
	cur := []*sx{}
	i := 0
	for i < len(s) {
		c := s[i]
		switch {
		case c == '(':
			stack = append(stack, cur)
			cur = []*sx{}
			i++
		case c == ')':
			node := &sx{list: cur}
			if len(stack) == 0 {
				return cur
			}
			cur = stack[len(stack)-1]
			stack = stack[:len(stack)-1]
			cur = append(cur, node)
			i++
		case c == ' ' || c == '\n' || c == '\t' || c == '\r':
			i++
		case c == '"':
			j := i + 1
			for j < len(s) {
				if s[j] == '"' {
					if j+1 < len(s) && s[j+1] == '"' {
						j += 2
						continue
					}
					break
				}
				j++
			}
			cur = append(cur, &sx{atom: s[i : j+1]})
			i = j + 1
		case c == '|':
			j := strings.IndexByte(s[i+1:], '|')
			cur = append(cur, &sx{atom: s[i : i+j+2]})
			i += j + 2
		default:
			j := i
			for j < len(s) && !strings.ContainsRune("() \n\t\r", rune(s[j])) {
				j++
			}
			cur = append(cur, &sx{atom: s[i:j]})
			i = j
		}
	}
	return cur
}

func (n *sx) String() string {
	if n.list == nil {
		return n.atom
	}
	var ps []string
	for _, c := range n.list {
		ps = append(ps, c.String())
	}
	return "(" + strings.Join(ps, " ") + ")"
}

// intOf evaluates a model integer value: 5, (- 5).
func intOf(n *sx) (string, bool) {
	if n.list == nil {
		if _, err := strconv.ParseInt(n.atom, 10, 64); err == nil || isDigits(n.atom) {
			return n.atom, true
		}
		return "", false
	}
	if len(n.list) == 2 && n.list[0].atom == "-" {
		if v, ok := intOf(n.list[1]); ok {
			return "-" + v, true
		}
	}
	return "", false
}

func isDigits(s string) bool {
	if s == "" {
		return false
	}
	for _, c := range s {
		if c < '0' || c > '9' {
			return false
		}
	}
	return true
}

// Go source generation --------------------------------------------------------------

type goGen struct {
	pkg     *types.Package
	imports map[string]string // path -> alias
	decls   []string
	ptrVars map[string]string
	rs      *ReplaySpec
	fail    string
	nvar    int
	strSeen map[string]string
}

func (g *goGen) qual(p *types.Package) string {
	if p == g.pkg {
		return ""
	}
	if a, ok := g.imports[p.Path()]; ok {
		return a
	}
	a := fmt.Sprintf("wkvp%d", len(g.imports))
	g.imports[p.Path()] = a
	return a
}

func (g *goGen) typeStr(t types.Type) string { return types.TypeString(t, g.qual) }

func (g *goGen) usable(t types.Type) bool {
	// types with unexported names from other packages cannot be written down
	ok := true
	var walk func(t types.Type, d int)
	walk = func(t types.Type, d int) {
		if d > 6 {
			return
		}
		switch u := t.(type) {
		case *types.Named:
			if u.Obj().Pkg() != nil && u.Obj().Pkg() != g.pkg && !u.Obj().Exported() {
				ok = false
			}
		case *types.Pointer:
			walk(u.Elem(), d+1)
		case *types.Slice:
			walk(u.Elem(), d+1)
		case *types.Array:
			walk(u.Elem(), d+1)
		case *types.Map:
			walk(u.Key(), d+1)
			walk(u.Elem(), d+1)
		}
	}
	walk(t, 0)
	return ok
}

func (g *goGen) strValue(n *MNode) string {
	id := n.Val
	if lit, ok := g.rs.StrLits["val:"+id]; ok {
		return lit
	}
	if strings.HasPrefix(id, "\"") { // SMT string literal
		return strings.ReplaceAll(strings.Trim(id, "\""), "\"\"", "\"")
	}
	if s, ok := g.strSeen[id]; ok {
		return s
	}
	l := 4
	if v, err := strconv.Atoi(n.AuxV["slen"]); err == nil && v >= 0 && v <= 64 {
		l = v
	}
	base := fmt.Sprintf("%c%d", 'a'+len(g.strSeen)%26, len(g.strSeen))
	s := base
	for len(s) < l {
		s += "x"
	}
	if len(s) > l {
		s = s[:l]
	}
	g.strSeen[id] = s
	return s
}

// expr builds a Go expression for the node's model value.
func (g *goGen) expr(n *MNode) string {
	if g.fail != "" {
		return "nil"
	}
	ts := g.typeStr(n.T)
	switch n.Kind {
	case "int":
		if n.Val == "" {
			return ts + "(0)"
		}
		return ts + "(" + n.Val + ")"
	case "bool":
		if _, isNamed := n.T.(*types.Named); isNamed {
			return ts + "(" + n.Val + ")"
		}
		return n.Val
	case "str":
		return ts + "(" + strconv.Quote(g.strValue(n)) + ")"
	case "struct":
		st := n.T.Underlying().(*types.Struct)
		var fs []string
		foreign := false
		if nt, ok := n.T.(*types.Named); ok && nt.Obj().Pkg() != nil && nt.Obj().Pkg() != g.pkg {
			foreign = true
		}
		for i, k := range n.Kids {
			f := st.Field(i)
			if foreign && !f.Exported() {
				continue
			}
			if f.Name() == "_" {
				continue
			}
			if !g.usable(f.Type()) {
				continue
			}
			fs = append(fs, f.Name()+": "+g.expr(k))
		}
		return ts + "{" + strings.Join(fs, ", ") + "}"
	case "ptr":
		if n.Val == "0" || n.Val == "" {
			return "nil"
		}
		if len(n.Kids) == 0 {
			g.fail = "pointer chain too deep at " + n.Path
			return "nil"
		}
		key := ts + ":" + n.Val
		if v, ok := g.ptrVars[key]; ok {
			return v
		}
		g.nvar++
		name := fmt.Sprintf("wkvPtr%d", g.nvar)
		g.ptrVars[key] = name
		elem := g.expr(n.Kids[0])
		g.decls = append(g.decls, fmt.Sprintf("%s := new(%s)\n\t*%s = %s", name, g.typeStr(n.T.Underlying().(*types.Pointer).Elem()), name, elem))
		return name
	case "slice":
		if n.AuxV["base"] == "0" {
			return "nil"
		}
		l, err := strconv.Atoi(n.AuxV["len"])
		if err != nil || l > replayMaxElems {
			g.fail = fmt.Sprintf("model slice %s has length %s (replay supports up to %d elements)", n.Path, n.AuxV["len"], replayMaxElems)
			return "nil"
		}
		var es []string
		for i := 0; i < l && i < len(n.Kids); i++ {
			es = append(es, g.expr(n.Kids[i]))
		}
		c, err := strconv.Atoi(n.AuxV["cap"])
		if err == nil && c > l && c <= 64 {
			g.nvar++
			name := fmt.Sprintf("wkvSl%d", g.nvar)
			g.decls = append(g.decls, fmt.Sprintf("%s := make(%s, %d, %d)\n\tcopy(%s, %s{%s})", name, ts, l, c, name, ts, strings.Join(es, ", ")))
			return name
		}
		return ts + "{" + strings.Join(es, ", ") + "}"
	case "array":
		var es []string
		for _, k := range n.Kids {
			es = append(es, g.expr(k))
		}
		return ts + "{" + strings.Join(es, ", ") + "}"
	case "iface", "func":
		if n.Val == "0" || n.Val == "" {
			return "nil"
		}
		g.fail = "model needs a non-nil " + n.Kind + " value at " + n.Path + " (not constructible)"
		return "nil"
	case "map":
		if n.Val == "0" {
			return "nil"
		}
		if n.AuxV["maplen"] == "0" {
			return ts + "{}"
		}
		g.fail = "model needs a non-empty map at " + n.Path + " (not constructible)"
		return "nil"
	}
	g.fail = "unsupported value kind at " + n.Path
	return "nil"
}

// predicted collects comparable output leaves: path -> expected printed value.
func (g *goGen) predicted(n *MNode, out map[string]string) {
	switch n.Kind {
	case "int":
		out[n.Path] = n.Val
	case "bool":
		out[n.Path] = n.Val
	case "str":
		if lit, ok := g.rs.StrLits["val:"+n.Val]; ok {
			out[n.Path] = strconv.Quote(lit)
		} else if s, ok := g.strSeen[n.Val]; ok {
			out[n.Path] = strconv.Quote(s)
		}
	case "ptr", "iface", "func", "map":
		if n.Val == "0" {
			out[n.Path] = "nil"
		} else if n.Val != "" {
			out[n.Path] = "non-nil"
		}
		if n.Kind == "ptr" && n.Val != "0" {
			for _, k := range n.Kids {
				g.predicted(k, out)
			}
		}
	case "struct", "array":
		for _, k := range n.Kids {
			g.predicted(k, out)
		}
	case "slice":
		out[n.Path+".#len"] = n.AuxV["len"]
		if l, err := strconv.Atoi(n.AuxV["len"]); err == nil {
			for i := 0; i < l && i < len(n.Kids); i++ {
				g.predicted(n.Kids[i], out)
			}
		}
	}
}

// pinNode turns observed values of the real run into equalities over the
// model terms of a node tree.
func pinNode(n *MNode, actual map[string]string, rs *ReplaySpec) []string {
	var out []string
	num := func(v string) string {
		if strings.HasPrefix(v, "-") {
			return "(- " + v[1:] + ")"
		}
		return v
	}
	switch n.Kind {
	case "int":
		if v, ok := actual[n.Path]; ok && n.Term != "" {
			out = append(out, "(= "+n.Term+" "+num(v)+")")
		}
	case "bool":
		if v, ok := actual[n.Path]; ok && n.Term != "" {
			out = append(out, "(= "+n.Term+" "+v+")")
		}
	case "str":
		if v, ok := actual[n.Path]; ok && n.Term != "" {
			if s, err := strconv.Unquote(v); err == nil {
				if n.Aux["slen"] != "" {
					out = append(out, fmt.Sprintf("(= %s %d)", n.Aux["slen"], len(s)))
				}
				for name, text := range rs.StrLits {
					if !strings.HasPrefix(name, "val:") && text == s {
						out = append(out, "(= "+n.Term+" "+name+")")
						break
					}
				}
			}
		}
	case "ptr", "iface", "func", "map":
		if v, ok := actual[n.Path]; ok && n.Term != "" {
			if v == "nil" {
				out = append(out, "(= "+n.Term+" 0)")
			} else {
				out = append(out, "(not (= "+n.Term+" 0))")
				for _, k := range n.Kids {
					out = append(out, pinNode(k, actual, rs)...)
				}
			}
		}
	case "struct", "array":
		for _, k := range n.Kids {
			out = append(out, pinNode(k, actual, rs)...)
		}
	case "slice":
		if v, ok := actual[n.Path+".#len"]; ok {
			out = append(out, "(= "+n.Aux["len"]+" "+v+")")
			if l, err := strconv.Atoi(v); err == nil {
				for i := 0; i < l && i < len(n.Kids); i++ {
					out = append(out, pinNode(n.Kids[i], actual, rs)...)
				}
			}
		}
	}
	return out
}

const dumpHelper = `
var wkvTag = "WKV-OUT"

func wkvDump(path string, v reflect.Value, depth int) {
	if depth > 6 {
		return
	}
	switch v.Kind() {
	case reflect.Int, reflect.Int8, reflect.Int16, reflect.Int32, reflect.Int64:
		fmt.Printf(wkvTag+" %s=%d\n", path, v.Int())
	case reflect.Uint, reflect.Uint8, reflect.Uint16, reflect.Uint32, reflect.Uint64, reflect.Uintptr:
		fmt.Printf(wkvTag+" %s=%d\n", path, v.Uint())
	case reflect.Bool:
		fmt.Printf(wkvTag+" %s=%t\n", path, v.Bool())
	case reflect.String:
		fmt.Printf(wkvTag+" %s=%q\n", path, v.String())
	case reflect.Struct:
		for i := 0; i < v.NumField(); i++ {
			wkvDump(path+"."+v.Type().Field(i).Name, v.Field(i), depth+1)
		}
	case reflect.Ptr:
		if v.IsNil() {
			fmt.Printf(wkvTag+" %s=nil\n", path)
		} else {
			fmt.Printf(wkvTag+" %s=non-nil\n", path)
			wkvDump(path+".*", v.Elem(), depth+1)
		}
	case reflect.Interface, reflect.Func, reflect.Map:
		if v.IsNil() {
			fmt.Printf(wkvTag+" %s=nil\n", path)
		} else {
			fmt.Printf(wkvTag+" %s=non-nil\n", path)
		}
	case reflect.Slice:
		fmt.Printf(wkvTag+" %s.#len=%d\n", path, v.Len())
		for i := 0; i < v.Len() && i < 4; i++ {
			wkvDump(fmt.Sprintf("%s[%d]", path, i), v.Index(i), depth+1)
		}
	case reflect.Array:
		for i := 0; i < v.Len() && i < 32; i++ {
			wkvDump(fmt.Sprintf("%s[%d]", path, i), v.Index(i), depth+1)
		}
	}
}
`

// tryReplay generates and runs the replay test for a refuted obligation.
// Returns the replay file path and whether the violation was reproduced.
func tryReplay(prog *Program, repo, verif, dir string, oc *oblOutcome) (string, bool) {
	rs := oc.Obl.Replay
	if rs == nil || rs.Fn == nil {
		return "", false
	}
	fn := rs.Fn
	pkgT := prog.pkgOfFunc(fn)
	pk := prog.all[pkgT.Path()]
	if pk == nil || len(pk.GoFiles) == 0 {
		return "", false
	}
	pkgDir, err := filepath.Rel(repo, filepath.Dir(pk.GoFiles[0]))
	if err != nil {
		return "", false
	}
	// model query: prefer small values
	terms, setters := rs.terms(oc.Script)
	base := buildQuery(oc.Script, oc.Obl, false)
	base = strings.TrimSuffix(strings.TrimSpace(base), "(check-sat)")
	getv := "(get-value (" + strings.Join(terms, "\n ") + "))\n"
	var modelOut string
	for attempt := 0; attempt < 2; attempt++ {
		q := base
		if attempt == 0 {
			for _, b := range rs.smallBounds() {
				q += "(assert " + b + ")\n"
			}
		}
		q += "(check-sat)\n" + getv
		file := filepath.Join(dir, sanitize(oc.Obl.Name)+fmt.Sprintf(".model%d.smt2", attempt))
		os.MkdirAll(dir, 0o755)
		os.WriteFile(file, []byte(q), 0o644)
		st, out, _ := runSolver(solvers[0], 20, 0, file)
		if st == "sat" {
			modelOut = out
			break
		}
	}
	if modelOut == "" {
		return "", false
	}
	body := strings.TrimSpace(strings.TrimPrefix(strings.TrimSpace(modelOut), "sat"))
	parsed := parseSx(body)
	if len(parsed) != 1 || len(parsed[0].list) != len(terms) {
		return "", false
	}
	for i, pair := range parsed[0].list {
		if len(pair.list) != 2 {
			return "", false
		}
		val := pair.list[1]
		if v, ok := intOf(val); ok {
			setters[i](v)
		} else {
			setters[i](val.String())
		}
	}
	g := &goGen{pkg: pkgT, imports: map[string]string{}, ptrVars: map[string]string{}, rs: rs, strSeen: map[string]string{}}
	var args []string
	for _, in := range rs.Inputs {
		if !g.usable(in.T) {
			g.fail = "parameter type " + in.T.String() + " cannot be named from a test"
		}
		args = append(args, g.expr(in))
	}
	note := func(text string) string {
		p := filepath.Join(dir, sanitize(oc.Obl.Name)+".txt")
		f, err := os.OpenFile(p, os.O_APPEND|os.O_WRONLY, 0o644)
		if err == nil {
			fmt.Fprintf(f, "\n--- replay ---\n%s\n", text)
			f.Close()
		}
		return p
	}
	if g.fail != "" {
		note("replay not possible: " + g.fail)
		return "", false
	}
	pred := map[string]string{}
	for _, o := range rs.Outputs {
		g.predicted(o, pred)
	}
	// call expression
	var call string
	nres := fn.Signature.Results().Len()
	if fn.Signature.Recv() != nil {
		call = "(" + args[0] + ")." + fn.Name() + "(" + strings.Join(args[1:], ", ") + ")"
	} else {
		call = fn.Name() + "(" + strings.Join(args, ", ") + ")"
	}
	var b strings.Builder
	testName := "TestWkvReplay"
	fmt.Fprintf(&b, "// wkv replay of obligation %s\n// package dir: %s\n// run: go test -overlay <ov.json> -vet=off -count=1 -run ^%s$ ./%s\n", oc.Obl.Name, pkgDir, testName, pkgDir)
	fmt.Fprintf(&b, "package %s\n\nimport (\n\t\"fmt\"\n\t\"reflect\"\n\t\"testing\"\n", pkgT.Name())
	// imports are known only after expressions were generated
	var ips []string
	for p := range g.imports {
		ips = append(ips, p)
	}
	sort.Strings(ips)
	for _, p := range ips {
		fmt.Fprintf(&b, "\t%s %q\n", g.imports[p], p)
	}
	b.WriteString(")\n")
	b.WriteString(dumpHelper)
	fmt.Fprintf(&b, "\nfunc %s(t *testing.T) {\n\tdefer func() {\n\t\tif r := recover(); r != nil {\n\t\t\tfmt.Printf(\"WKV-PANIC %%v\\n\", r)\n\t\t}\n\t}()\n", testName)
	for _, d := range g.decls {
		fmt.Fprintf(&b, "\t%s\n", d)
	}
	// keep pointer arguments for post-state dumps
	for i, in := range rs.Inputs {
		fmt.Fprintf(&b, "\twkvArg%d := %s\n\t_ = wkvArg%d\n", i, args[i], i)
		fmt.Fprintf(&b, "\twkvTag = \"WKV-IN\"\n\twkvDump(%q, reflect.ValueOf(&wkvArg%d).Elem(), 0)\n\twkvTag = \"WKV-OUT\"\n", in.Path, i)
	}
	var argNames []string
	for i := range rs.Inputs {
		argNames = append(argNames, fmt.Sprintf("wkvArg%d", i))
	}
	if fn.Signature.Recv() != nil {
		call = "wkvArg0." + fn.Name() + "(" + strings.Join(argNames[1:], ", ") + ")"
	} else {
		call = fn.Name() + "(" + strings.Join(argNames, ", ") + ")"
	}
	if fn.Signature.Variadic() && len(argNames) > 0 {
		call = strings.TrimSuffix(call, ")") + "...)"
	}
	if nres > 0 {
		var rn []string
		for i := 0; i < nres; i++ {
			rn = append(rn, fmt.Sprintf("r%d", i))
		}
		fmt.Fprintf(&b, "\t%s := %s\n", strings.Join(rn, ", "), call)
		for i := 0; i < nres; i++ {
			fmt.Fprintf(&b, "\twkvDump(\"r%d\", reflect.ValueOf(&r%d).Elem(), 0)\n", i, i)
		}
	} else {
		fmt.Fprintf(&b, "\t%s\n", call)
	}
	for i, p := range fn.Params {
		if _, ok := p.Type().Underlying().(*types.Pointer); ok {
			fmt.Fprintf(&b, "\tif wkvArg%d != nil {\n\t\twkvDump(\"post:%s.*\", reflect.ValueOf(wkvArg%d).Elem(), 1)\n\t}\n", i, p.Name(), i)
		}
	}
	b.WriteString("\tfmt.Println(\"WKV-DONE\")\n}\n")
	src := filepath.Join(dir, sanitize(oc.Obl.Name)+".go")
	os.WriteFile(src, []byte(b.String()), 0o644)
	ok, _, log := runOverlayTest(repo, verif, pkgDir, src, testName, 60)
	_ = ok
	actual := map[string]string{}
	actualIn := map[string]string{}
	panicked := ""
	done := false
	for _, l := range splitLines(log) {
		l = strings.TrimSpace(l)
		if strings.HasPrefix(l, "WKV-IN ") {
			kv := strings.SplitN(strings.TrimPrefix(l, "WKV-IN "), "=", 2)
			if len(kv) == 2 {
				actualIn[kv[0]] = kv[1]
			}
		}
		if strings.HasPrefix(l, "WKV-OUT ") {
			kv := strings.SplitN(strings.TrimPrefix(l, "WKV-OUT "), "=", 2)
			if len(kv) == 2 {
				actual[kv[0]] = kv[1]
			}
		}
		if strings.HasPrefix(l, "WKV-PANIC") {
			panicked = l
		}
		if l == "WKV-DONE" {
			done = true
		}
	}
	var rep strings.Builder
	fmt.Fprintf(&rep, "replay test: %s\ncall: %s\n", src, call)
	for i, in := range rs.Inputs {
		fmt.Fprintf(&rep, "  %s = %s\n", in.Path, args[i])
	}
	reproduced := false
	if rs.Safety {
		reproduced = panicked != ""
		fmt.Fprintf(&rep, "expected: panic; observed: %q\n", panicked)
	} else if panicked != "" || !done {
		fmt.Fprintf(&rep, "the real function did not return normally on the model's input (%s)\n%s\n", panicked, tailLines(log, 15))
	} else {
		matched, compared := 0, 0
		var diffs []string
		for _, k := range sortedKeys(pred) {
			a, ok := actual[k]
			if !ok {
				continue
			}
			compared++
			if a == pred[k] {
				matched++
			} else {
				diffs = append(diffs, fmt.Sprintf("  %s: model predicts %s, real code gives %s", k, pred[k], a))
			}
		}
		fmt.Fprintf(&rep, "compared %d output values of the real execution with the model's refuting execution: %d equal\n", compared, matched)
		for _, d := range diffs {
			rep.WriteString(d + "\n")
		}
		reproduced = compared > 0 && matched == compared
		if !reproduced && compared > 0 {
			// The model may differ from the real run in values the contracts leave open
			// (results of modularly treated callees). Decide by the solver: is the real run
			// (inputs as constructed, outputs as observed) itself an execution of the encoded
			// function that violates the clause?
			var pins []string
			for _, in := range rs.Inputs {
				pins = append(pins, pinNode(in, actualIn, rs)...)
			}
			for _, o := range rs.Outputs {
				pins = append(pins, pinNode(o, actual, rs)...)
			}
			q := base
			for _, p := range pins {
				q += "(assert " + p + ")\n"
			}
			q += "(check-sat)\n"
			file := filepath.Join(dir, sanitize(oc.Obl.Name)+".pinned.smt2")
			os.WriteFile(file, []byte(q), 0o644)
			st, _, _ := runSolver(solvers[0], 20, 0, file)
			fmt.Fprintf(&rep, "pinned check (%d input/output values of the real run asserted; clause negated): %s\n", len(pins), st)
			// the pinned query only decides when the observation covers everything the clause can
			// read: maps, interfaces and function values are not observed, so a model of the
			// pinned query may differ from the real run exactly there
			complete := true
			for _, in := range rs.Inputs {
				complete = complete && observable(in)
			}
			for _, o := range rs.Outputs {
				complete = complete && observable(o)
			}
			if st == "sat" && !complete {
				rep.WriteString("not conclusive: the inputs or outputs contain maps, interfaces or function values, which the replay does not observe\n")
			}
			if st == "sat" && complete {
				reproduced = true
				rep.WriteString("the real run is itself a refuting execution: the observed outputs violate the clause\n")
			}
		}
	}
	if reproduced {
		rep.WriteString("REPRODUCED: the real code, run on the model's input, behaves exactly as in the refuting execution\n")
	} else {
		rep.WriteString("NOT-REPRODUCED\n")
	}
	p := note(rep.String())
	if reproduced {
		return p, true
	}
	return "", false
}

func tailLines(s string, n int) string {
	ls := splitLines(s)
	if len(ls) > n {
		ls = ls[len(ls)-n:]
	}
	return strings.Join(ls, "\n")
}

func runBounded(spec *PropertySpec, repo, verif, tier, prop, replayDir string) []BoundedResult {
	var out []BoundedResult
	for _, b := range spec.Bounded {
		if b.Tier == "thorough" && tier != "thorough" {
			continue
		}
		start := time.Now()
		r := BoundedResult{Name: b.Name, Bound: b.Bound, Label: "bounded (never counted as proved)"}
		ok, cases, log := runOverlayTest(repo, verif, b.Pkg, filepath.Join(verif, "bounded", b.File), b.Run, 600)
		r.OK, r.Cases = ok, cases
		r.Seconds = time.Since(start).Seconds()
		r.Log = log
		for _, l := range splitLines(log) {
			l = strings.TrimSpace(l)
			if strings.HasPrefix(l, "WKV-FINDING ") {
				r.Findings = append(r.Findings, strings.TrimPrefix(l, "WKV-FINDING "))
			}
		}
		if !ok {
			os.MkdirAll(replayDir, 0o755)
			p := filepath.Join(replayDir, "bounded_"+sanitize(b.Name)+".txt")
			os.WriteFile(p, []byte("bounded stand-in "+b.Name+" failed ("+b.Bound+")\n\n"+log), 0o644)
			r.Replay = p
		}
		out = append(out, r)
	}
	return out
}

// runOverlayTest injects a test file into a package of /repo with `go test
// -overlay` (nothing is written into /repo) and runs it.
func runOverlayTest(repo, verif, pkgDir, src, run string, timeoutS int) (bool, int, string) {
	tmp, err := os.MkdirTemp("", "wkv-ov-")
	if err != nil {
		return false, 0, err.Error()
	}
	defer os.RemoveAll(tmp)
	target := filepath.Join(repo, pkgDir, "zz_wkv_replay_test.go")
	ov := `{"Replace":{"` + target + `":"` + src + `"}}`
	ovp := filepath.Join(tmp, "ov.json")
	os.WriteFile(ovp, []byte(ov), 0o644)
	cmd := exec.Command("go", "test", "-tags", "verif", "-overlay", ovp, "-vet=off", "-count=1", "-timeout", (time.Duration(timeoutS) * time.Second).String(), "-run", "^"+run+"$", "-v", "./"+pkgDir)
	cmd.Dir = repo
	out, err := cmd.CombinedOutput()
	cases := 0
	// tests print "WKV-CASES <n>"
	for _, l := range splitLines(string(out)) {
		var n int
		if _, e := fmt.Sscanf(strings.TrimSpace(l), "WKV-CASES %d", &n); e == nil {
			cases += n
		}
	}
	return err == nil, cases, string(out)
}

func splitLines(s string) []string {
	return strings.Split(strings.ReplaceAll(s, "\r\n", "\n"), "\n")
}

// cmdReplay re-runs a generated replay test file.
func cmdReplay(args []string) int {
	var path, repo, verif string
	repo, verif = "/repo", "/verif"
	for i := 0; i < len(args); i++ {
		switch args[i] {
		case "--path":
			i++
			path = args[i]
		case "--repo":
			i++
			repo = args[i]
		case "--property":
			i++
		}
	}
	if strings.HasSuffix(path, ".txt") {
		path = strings.TrimSuffix(path, ".txt") + ".go"
	}
	data, err := os.ReadFile(path)
	if err != nil {
		fmt.Fprintln(os.Stderr, "no replay test for this violation (the replay file names the failed obligation and carries the solver output):", err)
		return 2
	}
	pkgDir := ""
	for _, l := range strings.Split(string(data), "\n") {
		if strings.HasPrefix(l, "// package dir: ") {
			pkgDir = strings.TrimPrefix(l, "// package dir: ")
		}
	}
	_, _, log := runOverlayTest(repo, verif, pkgDir, path, "TestWkvReplay", 60)
	fmt.Println(log)
	return 0
}
