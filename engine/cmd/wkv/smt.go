package main

// Solver back ends: z3-new 5.1.0, z3 4.8.12, cvc5 1.0.3 (DESIGN.md 3.8).

import (
	"bytes"
	"context"
	"fmt"
	"os"
	"os/exec"
	"path/filepath"
	"strings"
	"time"
)

type SolveResult struct {
	Status  string // unsat, sat, unknown
	Solver  string
	Millis  int64
	Model   string
	Output  string
	Query   string // path of the query file
	Tried   []string
	Agree   bool // thorough: all solvers that answered agree
}

type solverSpec struct {
	name string
	args func(timeoutS int, seed int, file string) []string
}

var solvers = []solverSpec{
	{"z3-new", func(t, seed int, f string) []string {
		return []string{"z3-new", "-smt2", fmt.Sprintf("-T:%d", t), fmt.Sprintf("smt.random_seed=%d", seed), f}
	}},
	{"z3", func(t, seed int, f string) []string {
		return []string{"z3", "-smt2", fmt.Sprintf("-T:%d", t), fmt.Sprintf("smt.random_seed=%d", seed), f}
	}},
	{"cvc5", func(t, seed int, f string) []string {
		return []string{"cvc5", fmt.Sprintf("--tlimit=%d", t*1000), fmt.Sprintf("--seed=%d", seed), "--produce-models", "--strings-exp", f}
	}},
}

func runSolver(sp solverSpec, timeoutS, seed int, file string) (status, out string, ms int64) {
	return runSolverCtx(context.Background(), sp, timeoutS, seed, file)
}

func runSolverCtx(parent context.Context, sp solverSpec, timeoutS, seed int, file string) (status, out string, ms int64) {
	args := sp.args(timeoutS, seed, file)
	ctx, cancel := context.WithTimeout(parent, time.Duration(timeoutS+2)*time.Second)
	defer cancel()
	cmd := exec.CommandContext(ctx, args[0], args[1:]...)
	var buf bytes.Buffer
	cmd.Stdout = &buf
	cmd.Stderr = &buf
	start := time.Now()
	_ = cmd.Run()
	ms = time.Since(start).Milliseconds()
	out = buf.String()
	// the answer is the first line that is not a warning
	first := ""
	for _, l := range strings.Split(out, "\n") {
		l = strings.TrimSpace(l)
		if l == "" || strings.HasPrefix(l, "WARNING") {
			continue
		}
		first = l
		break
	}
	switch first {
	case "unsat", "sat":
		return first, out, ms
	}
	if strings.HasPrefix(first, "(error") {
		return "unknown", "solver rejected the query: " + first, ms
	}
	return "unknown", out, ms
}

// solve discharges one query. In quick mode the solvers are tried in order until
// one gives a definite answer; in thorough mode all are run and must agree.
func solve(query string, file string, timeoutS, seed int, thorough bool) *SolveResult {
	if err := os.MkdirAll(filepath.Dir(file), 0o755); err != nil {
		return &SolveResult{Status: "unknown", Output: err.Error()}
	}
	if err := os.WriteFile(file, []byte(query), 0o644); err != nil {
		return &SolveResult{Status: "unknown", Output: err.Error()}
	}
	res := &SolveResult{Status: "unknown", Query: file, Agree: true}
	order := solvers
	if strings.Contains(query, "(str.") {
		// SMT string goals: cvc5 decides what the z3s time out on
		order = []solverSpec{solvers[2], solvers[0], solvers[1]}
	} else if seed%2 == 1 && !thorough {
		// seed only changes launch order / random seeds, not results claimed
		order = []solverSpec{solvers[0], solvers[2], solvers[1]}
	}
	if strings.Contains(query, "(str.") {
		return raceSolvers(res, order, timeoutS, seed, file, thorough)
	}
	// staged: most obligations are decided by the first solver within a second or two; only
	// when that short attempt is undecided are all three raced for the full timeout
	if !thorough && timeoutS > 2 {
		sp := order[0]
		st, out, ms := runSolver(sp, 2, seed, file)
		res.Tried = append(res.Tried, fmt.Sprintf("%s:%s:%dms", sp.name, st, ms))
		if st != "unknown" {
			res.Status, res.Solver, res.Millis, res.Output = st, sp.name, ms, out
			if st == "sat" {
				res.Model = out
			}
			return res
		}
		res.Output = out
	}
	return raceSolvers(res, order, timeoutS, seed, file, thorough)
}

// raceSolvers runs the solvers concurrently (SMT-string goals: which solver decides a
// goal varies, and the losers would otherwise burn their whole timeout first). Quick:
// the first definite answer wins and the rest are cancelled; thorough: all run to the
// end and must agree.
func raceSolvers(res *SolveResult, order []solverSpec, timeoutS, seed int, file string, thorough bool) *SolveResult {
	type ans struct {
		name, st, out string
		ms            int64
	}
	ctx, cancel := context.WithCancel(context.Background())
	defer cancel()
	ch := make(chan ans, len(order))
	for _, sp := range order {
		sp := sp
		go func() {
			st, out, ms := runSolverCtx(ctx, sp, timeoutS, seed, file)
			ch <- ans{sp.name, st, out, ms}
		}()
	}
	for range order {
		a := <-ch
		res.Tried = append(res.Tried, fmt.Sprintf("%s:%s:%dms", a.name, a.st, a.ms))
		if a.st == "unknown" {
			if res.Output == "" {
				res.Output = a.out
			}
			continue
		}
		if res.Status == "unknown" {
			res.Status, res.Solver, res.Millis, res.Output = a.st, a.name, a.ms, a.out
			if a.st == "sat" {
				res.Model = a.out
			}
			if !thorough {
				return res
			}
		} else if a.st != res.Status {
			res.Agree = false
		}
	}
	return res
}

func buildQuery(s *Script, o *Obligation, withModel bool) string {
	var b strings.Builder
	if o.Cover {
		// Satisfiability (vacuity) checks drop quantified assumptions: with them the solvers
		// rarely find models. A contradiction among the ground facts (requires, path
		// conditions, callee postconditions) is still detected.
		for _, l := range strings.Split(s.render(o.Prefix), "\n") {
			if strings.Contains(l, "(forall ") || strings.Contains(l, "(exists ") {
				continue
			}
			b.WriteString(l)
			b.WriteByte('\n')
		}
	} else {
		b.WriteString(s.render(o.Prefix))
	}
	if o.Region != "" {
		b.WriteString("(assert " + o.Region + ")\n")
	}
	b.WriteString("(assert " + o.Guard + ")\n")
	if o.Cover {
		b.WriteString("(assert " + o.Formula + ")\n")
	} else {
		b.WriteString("(assert (not " + o.Formula + "))\n")
	}
	b.WriteString("(check-sat)\n")
	if withModel && len(o.Inputs) > 0 {
		var terms []string
		for _, in := range o.Inputs {
			terms = append(terms, in.Term)
		}
		b.WriteString("(get-value (" + strings.Join(terms, " ") + "))\n")
	}
	return b.String()
}
