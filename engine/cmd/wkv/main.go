package main

// wkv — contract-based deductive verifier for WuKongIM (see /verif/DESIGN.md).

import (
	"encoding/json"
	"flag"
	"fmt"
	"os"
	"path/filepath"
	"regexp"
	"sort"
	"strings"
	"sync"
	"time"
)

type PropertySpec struct {
	Property     string   `json:"property"`
	Packages     []string `json:"packages"`
	Functions    []string `json:"functions"`     // extra contract keys (pkgpath.key) to verify
	RequiredTags []string `json:"required_tags"` // property obligations that must exist (vacuity guard)
	Assumptions  []string `json:"assumptions"`
	NotCovered   []string `json:"not_covered"`
	Bounded      []BoundedSpec `json:"bounded"`
	MinObligations int    `json:"min_obligations"`
	// CalleesProvedUnder: other properties' checks that already prove the contracts of callees
	// (their specs list those functions): such callees are not verified again here; their
	// contracts are used as stated and reported as "proved by check Cxx"
	CalleesProvedUnder []string `json:"callees_proved_under"`
}

type BoundedSpec struct {
	Name  string `json:"name"`
	Pkg   string `json:"pkg"`   // package dir relative to /repo
	File  string `json:"file"`  // test source under /verif/bounded
	Run   string `json:"run"`   // test name
	Bound string `json:"bound"`
	Tier  string `json:"tier"` // "", quick, thorough
}

type KnownFinding struct {
	Property   string `json:"property"`
	Obligation string `json:"obligation"`
	Region     string `json:"region"`
	What       string `json:"what"`
	Status     string `json:"status"` // "" (open) or "fixed"
	Commit     string `json:"commit"`
}

type oblOutcome struct {
	Obl    *Obligation
	Res    *SolveResult
	Script *Script
	Func   string
	KF     *KnownFinding
}

func main() {
	if len(os.Args) < 2 {
		usage()
	}
	switch os.Args[1] {
	case "verify":
		os.Exit(cmdVerify(os.Args[2:]))
	case "dump":
		os.Exit(cmdDump(os.Args[2:]))
	case "replay":
		os.Exit(cmdReplay(os.Args[2:]))
	case "ssa":
		os.Exit(cmdSSA(os.Args[2:]))
	default:
		usage()
	}
}

func usage() {
	fmt.Fprintln(os.Stderr, "usage: wkv verify --property Cxx [--tier quick|thorough] [--repo /repo] [--verif /verif]\n       wkv dump --pkg ./path --func key")
	os.Exit(2)
}

func loadKnownFindings(path string) []*KnownFinding {
	data, err := os.ReadFile(path)
	if err != nil {
		return nil
	}
	var out []*KnownFinding
	for _, l := range strings.Split(string(data), "\n") {
		l = strings.TrimSpace(l)
		if l == "" || strings.HasPrefix(l, "#") {
			continue
		}
		var k KnownFinding
		if err := json.Unmarshal([]byte(l), &k); err == nil {
			out = append(out, &k)
		}
	}
	return out
}

func contractFilesFor(prog *Program, cs *ContractSet) error {
	for path, pk := range prog.all {
		if !prog.inRepo(path) || len(pk.GoFiles) == 0 {
			continue
		}
		dir := filepath.Dir(pk.GoFiles[0])
		f := filepath.Join(dir, "verif_contracts.go")
		if _, err := os.Stat(f); err == nil {
			if err := cs.loadContractFile(f, path); err != nil {
				return err
			}
		}
	}
	return nil
}

func cmdVerify(args []string) int {
	fs := flag.NewFlagSet("verify", flag.ExitOnError)
	prop := fs.String("property", "", "property id")
	tier := fs.String("tier", "quick", "quick|thorough")
	repo := fs.String("repo", "/repo", "repository root")
	verif := fs.String("verif", "/verif", "verification root")
	seed := fs.Int("seed", 0, "seed")
	only := fs.String("only", "", "only obligations matching this regexp (debug; evidence not written)")
	keep := fs.Bool("keep", false, "keep query files")
	fs.Parse(args)
	if *prop == "" {
		usage()
	}
	start := time.Now()
	specPath := filepath.Join(*verif, "specs", *prop+".json")
	data, err := os.ReadFile(specPath)
	if err != nil {
		fmt.Fprintf(os.Stderr, "wkv: %v\n", err)
		return 2
	}
	var spec PropertySpec
	if err := json.Unmarshal(data, &spec); err != nil {
		fmt.Fprintf(os.Stderr, "wkv: %s: %v\n", specPath, err)
		return 2
	}
	thorough := *tier == "thorough"
	os.Setenv("VERIF_TIER", *tier) // bounded stand-ins pick their bound from it
	timeout := 10
	if thorough {
		timeout = 60
	}
	if t := os.Getenv("WKV_TIMEOUT"); t != "" {
		fmt.Sscanf(t, "%d", &timeout)
	}
	workDir := filepath.Join(*verif, ".work", *prop)
	os.RemoveAll(workDir)
	os.MkdirAll(workDir, 0o755)
	if !*keep {
		defer os.RemoveAll(workDir)
	}
	replayDir := filepath.Join(*verif, "replay", *prop)
	os.RemoveAll(replayDir)

	var problems []string // engine-level failures (drift, load errors): reported as violations, never silently skipped
	prog, err := loadProgram(*repo, spec.Packages, nil)
	if err != nil {
		fmt.Fprintf(os.Stderr, "wkv: load: %v\n", err)
		writeFailureEvidence(*verif, *prop, *tier, *seed, start, "package load failed: "+err.Error())
		fmt.Printf("VIOLATION property=%s replay=%s no-failing-input-found\n", *prop, writeReplayNote(replayDir, "load-failure", "packages failed to load:\n"+err.Error()))
		return 1
	}
	cs := newContractSet()
	if err := contractFilesFor(prog, cs); err != nil {
		fmt.Fprintf(os.Stderr, "wkv: contracts: %v\n", err)
		writeFailureEvidence(*verif, *prop, *tier, *seed, start, "contract parse failed: "+err.Error())
		fmt.Printf("VIOLATION property=%s replay=%s no-failing-input-found\n", *prop, writeReplayNote(replayDir, "contract-parse-failure", err.Error()))
		return 1
	}
	kfs := loadKnownFindings(filepath.Join(*verif, "known_findings.jsonl"))

	// worklist: contracts tagged with this property + listed functions + contracts they call
	todo := map[string]bool{}
	for full, c := range cs.Funcs {
		if contractHasProperty(c, *prop) {
			todo[full] = true
		}
	}
	for _, f := range spec.Functions {
		if cs.Funcs[f] == nil {
			problems = append(problems, fmt.Sprintf("spec lists %s but no contract exists for it", f))
			continue
		}
		todo[f] = true
	}
	// callee contracts proved by another property's check
	provedElsewhere := map[string]string{}
	elsewhere := map[string]string{}
	for _, other := range spec.CalleesProvedUnder {
		var os2 PropertySpec
		if b, err := os.ReadFile(filepath.Join(*verif, "specs", other+".json")); err == nil && json.Unmarshal(b, &os2) == nil {
			for _, f := range os2.Functions {
				provedElsewhere[f] = other
			}
			for full, c := range cs.Funcs {
				if contractHasProperty(c, other) {
					provedElsewhere[full] = other
				}
			}
		}
	}
	done := map[string]*FuncResult{}
	var mu sync.Mutex
	for {
		var batch []string
		for f := range todo {
			if done[f] == nil {
				batch = append(batch, f)
			}
		}
		if len(batch) == 0 {
			break
		}
		sort.Strings(batch)
		var wg sync.WaitGroup
		// VC generation is sequential: go/ssa and go/types build some structures lazily and a
		// crash here would be a false alarm; only the solver runs are parallel
		// (generation itself is serialised by genMu; the candidate-invariant rounds of
		// auto-invariants run their solver queries outside it)
		sem := make(chan struct{}, 12)
		for _, f := range batch {
			f := f
			c := cs.Funcs[f]
			if c.Trusted {
				done[f] = &FuncResult{Key: f, Contract: c}
				continue
			}
			wg.Add(1)
			sem <- struct{}{}
			go func() {
				defer wg.Done()
				defer func() { <-sem }()
				r := verifyFuncSafe(prog, cs, f, c, kfs)
				mu.Lock()
				done[f] = r
				mu.Unlock()
			}()
		}
		wg.Wait()
		for _, f := range batch {
			for _, called := range done[f].Called {
				if cs.Funcs[called] != nil {
					if by := provedElsewhere[called]; by != "" && !contractHasProperty(cs.Funcs[called], *prop) {
						elsewhere[called] = by
						continue
					}
					todo[called] = true
				}
			}
		}
	}

	// gather obligations; apply known-finding regions
	var outcomes []*oblOutcome
	var onlyRe *regexp.Regexp
	if *only != "" {
		onlyRe = regexp.MustCompile(*only)
	}
	var funcs []string
	for f := range done {
		funcs = append(funcs, f)
	}
	sort.Strings(funcs)
	trusted := map[string]bool{}
	notes := map[string]bool{}
	for f, by := range elsewhere {
		trusted["contract of "+f+" used as stated: proved by check "+by+" (not re-verified here)"] = true
	}
	for _, f := range funcs {
		r := done[f]
		if r.Err != "" {
			problems = append(problems, f+": "+r.Err)
			continue
		}
		if r.Contract.Trusted {
			trusted["trusted contract (body not verified): "+f] = true
			continue
		}
		if r.Port {
			trusted["port contract assumed for interface method "+f+" (implementations unverified unless listed under functions_under_contract)"] = true
			continue
		}
		for _, t := range r.Trusted {
			trusted[t] = true
		}
		for _, n := range r.Notes {
			notes[n] = true
		}
		for _, o := range r.Obls {
			if onlyRe != nil && !onlyRe.MatchString(o.Name) {
				continue
			}
			outcomes = append(outcomes, &oblOutcome{Obl: o, Script: r.Script, Func: f, KF: o.KF})
		}
	}

	// solve
	var wg sync.WaitGroup
	sem := make(chan struct{}, 14)
	for i, oc := range outcomes {
		i, oc := i, oc
		wg.Add(1)
		sem <- struct{}{}
		go func() {
			defer wg.Done()
			defer func() { <-sem }()
			q := buildQuery(oc.Script, oc.Obl, true)
			file := filepath.Join(workDir, fmt.Sprintf("%04d_%s.smt2", i, sanitize(oc.Obl.Name)))
			if oc.Obl.Cover {
				oc.Res = solve(q, file, 3, *seed, false)
			} else {
				oc.Res = solve(q, file, timeout, *seed, thorough)
			}
		}()
	}
	wg.Wait()

	// second chance: an obligation left undecided may only have been starved (a loaded
	// machine, 40-odd solver processes on 16 cores). It is decided again with four times the
	// timeout and little parallelism before anything is reported; only what is still
	// undecided then counts as failed.
	{
		var again []*oblOutcome
		for _, oc := range outcomes {
			// a clause that cannot be evaluated any more has the goal `false`: more time cannot help
			if !oc.Obl.Cover && oc.KF == nil && oc.Res != nil && oc.Res.Status == "unknown" && !strings.Contains(oc.Obl.Src, "[clause cannot be evaluated") {
				again = append(again, oc)
			}
		}
		if len(again) > 0 && len(again) <= 40 {
			var wg2 sync.WaitGroup
			sem2 := make(chan struct{}, 4)
			for i, oc := range again {
				i, oc := i, oc
				wg2.Add(1)
				sem2 <- struct{}{}
				go func() {
					defer wg2.Done()
					defer func() { <-sem2 }()
					q := buildQuery(oc.Script, oc.Obl, true)
					file := filepath.Join(workDir, fmt.Sprintf("retry_%04d_%s.smt2", i, sanitize(oc.Obl.Name)))
					r := solve(q, file, timeout*4, *seed, thorough)
					r.Tried = append(append([]string{}, oc.Res.Tried...), r.Tried...)
					r.Millis += oc.Res.Millis
					oc.Res = r
				}()
			}
			wg2.Wait()
		}
	}

	// verdict
	violations := 0
	var lines []string
	var samples []any
	obligations, discharged := 0, 0
	covers, coversOK := 0, 0
	tagsSeen := map[string]bool{}
	solverMs := int64(0)
	bySolver := map[string]int{}
	var knownLines []string
	for _, oc := range outcomes {
		o, r := oc.Obl, oc.Res
		solverMs += r.Millis
		if oc.KF != nil {
			// expected: sat (finding still present). unsat: the defect is gone, print nothing.
			if r.Status == "sat" {
				knownLines = append(knownLines, fmt.Sprintf("KNOWN-FINDING: property=%s %s [%s]", oc.KF.Property, oc.KF.What, o.Name))
			} else if r.Status == "unknown" {
				knownLines = append(knownLines, fmt.Sprintf("KNOWN-FINDING: property=%s %s [%s; solver undecided inside the recorded region]", oc.KF.Property, oc.KF.What, o.Name))
			}
			continue
		}
		if o.Cover {
			covers++
			if r.Status == "unsat" {
				violations++
				p := writeReplay(replayDir, oc, "vacuity: this condition must be satisfiable but is contradictory")
				lines = append(lines, fmt.Sprintf("VIOLATION property=%s replay=%s no-failing-input-found", *prop, p))
			} else {
				coversOK++
			}
			continue
		}
		obligations++
		if o.Tag != "" {
			tagsSeen[o.Tag] = true
		}
		ok := r.Status == "unsat" && (!thorough || r.Agree)
		if ok {
			discharged++
			bySolver[r.Solver]++
			if len(samples) < 12 {
				samples = append(samples, map[string]any{"obligation": o.Name, "kind": o.Kind, "clause": o.Src, "solver": r.Solver, "ms": r.Millis})
			}
			continue
		}
		violations++
		reason := "solver returned " + r.Status
		if thorough && !r.Agree {
			reason = "solvers disagree"
		}
		p := writeReplay(replayDir, oc, reason)
		suffix := " no-failing-input-found"
		if r.Status == "sat" {
			if rp, ok := tryReplay(prog, *repo, *verif, replayDir, oc); ok {
				p = rp
				suffix = ""
			}
		}
		lines = append(lines, fmt.Sprintf("VIOLATION property=%s replay=%s%s", *prop, p, suffix))
		fmt.Fprintf(os.Stderr, "FAILED %s (%s) %s: %s\n", o.Name, o.Kind, o.Pos, reason)
	}
	for _, t := range spec.RequiredTags {
		if !tagsSeen[t] {
			problems = append(problems, "required property obligation "+t+" was not generated (contract-shape drift or vacuity)")
		}
	}
	if obligations < spec.MinObligations {
		problems = append(problems, fmt.Sprintf("only %d obligations generated, expected at least %d", obligations, spec.MinObligations))
	}
	for _, pr := range problems {
		violations++
		p := writeReplayNote(replayDir, "engine-"+fmt.Sprint(violations), pr)
		lines = append(lines, fmt.Sprintf("VIOLATION property=%s replay=%s no-failing-input-found", *prop, p))
		fmt.Fprintf(os.Stderr, "PROBLEM %s\n", pr)
	}
	// bounded stand-ins
	bounded := runBounded(&spec, *repo, *verif, *tier, *prop, replayDir)
	for _, b := range bounded {
		if !b.OK {
			violations++
			lines = append(lines, fmt.Sprintf("VIOLATION property=%s replay=%s", *prop, b.Replay))
		}
		// executions of the real code that break the property: listed known findings are
		// reported as such, anything else is a violation with the harness log as its replay
		for _, f := range b.Findings {
			key, what := f, ""
			if i := strings.Index(f, ": "); i >= 0 {
				key, what = f[:i], f[i+2:]
			}
			obl := "bounded:" + b.Name + "#" + key
			listed := false
			for _, k := range kfs {
				if k.Property == *prop && k.Obligation == obl && k.Status != "fixed" {
					listed = true
					knownLines = append(knownLines, fmt.Sprintf("KNOWN-FINDING: property=%s %s [%s]", *prop, k.What, obl))
				}
			}
			if !listed {
				violations++
				os.MkdirAll(replayDir, 0o755)
				p := filepath.Join(replayDir, "bounded_"+sanitize(b.Name)+"_"+sanitize(key)+".txt")
				os.WriteFile(p, []byte("bounded harness "+b.Name+" ("+b.Bound+") observed on the real code: "+key+": "+what+"\n\nharness output:\n"+b.Log), 0o644)
				lines = append(lines, fmt.Sprintf("VIOLATION property=%s replay=%s", *prop, p))
			}
		}
	}

	for _, l := range knownLines {
		fmt.Println(l)
	}
	for _, l := range lines {
		fmt.Println(l)
	}
	// slowest obligations (stability watch: claimed obligations should discharge well under the timeout)
	var slow []string
	for _, oc := range outcomes {
		total := int64(0)
		for _, tr := range oc.Res.Tried {
			var ms int64
			if i := strings.LastIndex(tr, ":"); i >= 0 {
				fmt.Sscanf(tr[i+1:], "%dms", &ms)
			}
			total += ms
		}
		if total > int64(timeout)*250 && !oc.Obl.Cover {
			slow = append(slow, fmt.Sprintf("%s %s", oc.Obl.Name, strings.Join(oc.Res.Tried, " ")))
		}
	}
	for _, s := range slow {
		fmt.Fprintf(os.Stderr, "SLOW %s\n", s)
	}
	wall := time.Since(start).Seconds()
	fmt.Fprintf(os.Stderr, "wkv %s %s: %d/%d obligations discharged, %d/%d covers ok, %d functions, %.1fs wall, %.1fs solver\n",
		*prop, *tier, discharged, obligations, coversOK, covers, len(funcs), wall, float64(solverMs)/1000)
	if onlyRe != nil || os.Getenv("WKV_NO_EVIDENCE") != "" {
		// debug / must-fail corpus runs never touch the evidence files
		if violations > 0 {
			return 1
		}
		return 0
	}
	// evidence
	var tb []string
	for t := range trusted {
		tb = append(tb, t)
	}
	for n := range notes {
		tb = append(tb, "abstraction: "+n)
	}
	tb = append(tb, "wkv engine (SSA->SMT translation, contract parser), go/ssa v0.29.0 SSA construction, solvers z3 5.1.0 / z3 4.8.12 / cvc5 1.0.3")
	tb = append(tb, "pointer parameters do not point into the interior of other parameters' referents (component heap, DESIGN.md 3.5)")
	sort.Strings(tb)
	var tags []string
	for t := range tagsSeen {
		tags = append(tags, t)
	}
	sort.Strings(tags)
	var funcList []string
	for _, f := range funcs {
		if done[f].Err == "" && !done[f].Contract.Trusted {
			funcList = append(funcList, f)
		}
	}
	ev := map[string]any{
		"property_id": *prop,
		"tier":        *tier,
		"seed":        *seed,
		"level":       "proof",
		"coverage": map[string]any{
			"obligations":              obligations,
			"discharged":               discharged,
			"checker_cmd":              fmt.Sprintf("/verif/bin/wkv verify --property %s --tier %s", *prop, *tier),
			"trusted_base":             tb,
			"samples":                  samples,
			"functions_under_contract": funcList,
			"property_obligations":     tags,
			"vacuity_covers":           map[string]int{"checked": covers, "satisfiable": coversOK},
			"discharged_by_solver":     bySolver,
			"solver_ms":                solverMs,
			"slow_obligations":         slow,
			"per_obligation_timeout_s": timeout,
			"integer_semantics":        "machine integers modelled exactly (range-constrained Int with wrap-around, or bit-vectors in mode bv)",
			"bounded":                  bounded,
			"not_covered":              spec.NotCovered,
			"known_findings_reported":  knownLines,
		},
		"assumptions": append([]string{}, spec.Assumptions...),
		"wall_s":      wall,
		"violations":  violations,
	}
	os.MkdirAll(filepath.Join(*verif, "evidence"), 0o755)
	out, _ := json.MarshalIndent(ev, "", " ")
	os.WriteFile(filepath.Join(*verif, "evidence", *prop+".json"), append(out, '\n'), 0o644)
	if violations > 0 {
		return 1
	}
	return 0
}

func verifyFuncSafe(prog *Program, cs *ContractSet, f string, c *Contract, kfs []*KnownFinding) (r *FuncResult) {
	defer func() {
		if rec := recover(); rec != nil {
			r = &FuncResult{Key: f, Contract: c, Err: fmt.Sprintf("engine panic: %v", rec)}
			if os.Getenv("WKV_DEBUG") != "" {
				panic(rec)
			}
		}
	}()
	return verifyFunc(prog, cs, f, c, kfs)
}

func contractHasProperty(c *Contract, prop string) bool {
	has := func(cl []*Clause) bool {
		for _, x := range cl {
			if strings.HasPrefix(x.Tag, prop+".") {
				return true
			}
		}
		return false
	}
	if has(c.Requires) || has(c.Ensures) {
		return true
	}
	for _, l := range c.Loops {
		if has(l.Invariants) || has(l.Latch) {
			return true
		}
	}
	for _, cc := range c.Calls {
		if has(cc.Asserts) {
			return true
		}
	}
	for _, ac := range []*AllowedCalls{c.AllowedCalls, c.ForbiddenCalls} {
		if ac != nil && strings.HasPrefix(ac.Tag, prop+".") {
			return true
		}
	}
	for _, inv := range c.Inventory {
		if strings.HasPrefix(inv.Tag, prop+".") {
			return true
		}
	}
	return false
}

func writeFailureEvidence(verif, prop, tier string, seed int, start time.Time, why string) {
	if os.Getenv("WKV_NO_EVIDENCE") != "" {
		// debug / must-fail corpus runs never touch the evidence files
		return
	}
	ev := map[string]any{
		"property_id": prop, "tier": tier, "seed": seed, "level": "proof",
		"coverage": map[string]any{"evaluations": 1, "distinct_nontrivial": 0, "explanation": why},
		"wall_s":   time.Since(start).Seconds(), "violations": 1,
	}
	os.MkdirAll(filepath.Join(verif, "evidence"), 0o755)
	out, _ := json.MarshalIndent(ev, "", " ")
	os.WriteFile(filepath.Join(verif, "evidence", prop+".json"), append(out, '\n'), 0o644)
}

func writeReplayNote(dir, name, text string) string {
	os.MkdirAll(dir, 0o755)
	p := filepath.Join(dir, sanitize(name)+".txt")
	os.WriteFile(p, []byte(text+"\n"), 0o644)
	return p
}

func writeReplay(dir string, oc *oblOutcome, reason string) string {
	os.MkdirAll(dir, 0o755)
	p := filepath.Join(dir, sanitize(oc.Obl.Name)+".txt")
	var b strings.Builder
	fmt.Fprintf(&b, "failed obligation: %s\nkind: %s\nfunction: %s\nposition: %s\nclause: %s\nreason: %s\nsolvers tried: %s\n\n--- solver output ---\n%s\n",
		oc.Obl.Name, oc.Obl.Kind, oc.Func, oc.Obl.Pos, oc.Obl.Src, reason, strings.Join(oc.Res.Tried, " "), oc.Res.Output)
	if oc.Res.Status == "sat" {
		b.WriteString("\n--- counterexample (values of the function's inputs) ---\n")
		for i, in := range oc.Obl.Inputs {
			_ = i
			fmt.Fprintf(&b, "%s = %s\n", in.Name, in.Term)
		}
	}
	// keep the query next to it
	q := buildQuery(oc.Script, oc.Obl, true)
	qp := filepath.Join(dir, sanitize(oc.Obl.Name)+".smt2")
	os.WriteFile(qp, []byte(q), 0o644)
	fmt.Fprintf(&b, "\nquery: %s\n", qp)
	os.WriteFile(p, []byte(b.String()), 0o644)
	return p
}

func cmdDump(args []string) int {
	fs := flag.NewFlagSet("dump", flag.ExitOnError)
	repo := fs.String("repo", "/repo", "repository root")
	pkg := fs.String("pkg", "", "package pattern")
	fn := fs.String("func", "", "full contract key pkgpath.key")
	fs.Parse(args)
	prog, err := loadProgram(*repo, []string{*pkg}, nil)
	if err != nil {
		fmt.Fprintln(os.Stderr, err)
		return 2
	}
	cs := newContractSet()
	if err := contractFilesFor(prog, cs); err != nil {
		fmt.Fprintln(os.Stderr, err)
		return 2
	}
	c := cs.Funcs[*fn]
	if c == nil {
		fmt.Fprintln(os.Stderr, "no contract for", *fn)
		for k := range cs.Funcs {
			fmt.Fprintln(os.Stderr, "  have", k)
		}
		return 2
	}
	os.Setenv("WKV_DEBUG", "1")
	r := verifyFunc(prog, cs, *fn, c, nil)
	if r.Err != "" {
		fmt.Fprintln(os.Stderr, "error:", r.Err)
		return 1
	}
	for _, o := range r.Obls {
		fmt.Printf("; ---- %s (%s) %s\n", o.Name, o.Kind, o.Src)
	}
	if len(r.Obls) > 0 {
		fmt.Println(buildQuery(r.Script, r.Obls[len(r.Obls)-1], true))
	}
	for _, n := range r.Notes {
		fmt.Println("; note:", n)
	}
	return 0
}
