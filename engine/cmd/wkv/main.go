package main

import (
	"fmt"
	_ "golang.org/x/tools/go/packages"
	_ "golang.org/x/tools/go/ssa"
	_ "golang.org/x/tools/go/ssa/ssautil"
)

func main() { fmt.Println("wkv") }
