package main

// Instruction semantics (DESIGN.md 3.3 / 3.5).

import (
	"fmt"
	"go/token"
	"go/types"
	"math/big"
	"strings"

	"golang.org/x/tools/go/ssa"
)

// check emits a safety obligation when the function is under `safety on`,
// and in every case assumes the condition afterwards (a panicking execution
// has no normal continuation).
func (x *Exec) check(fr *Frame, st *State, pos token.Pos, what, cond string) {
	if cond == "true" {
		return
	}
	if fr.safety {
		x.addObl(&Obligation{Name: fmt.Sprintf("%s#safety.%s@%s", funcKey(x.stack[0]), what, x.prog.posShort(pos, fr.fn)), Kind: "safety",
			Func: funcKey(x.stack[0]), Pos: x.prog.pos(pos), Guard: st.guard, Formula: cond, Src: what})
	}
	x.assume(st.guard, cond)
}

func (x *Exec) execInstr(fr *Frame, in ssa.Instruction, st *State) {
	switch i := in.(type) {
	case *ssa.DebugRef:
		return
	case *ssa.Alloc:
		t := i.Type().(*types.Pointer).Elem()
		ref := x.newRef(st)
		p := x.placeOf(V{T: i.Type(), S: ref})
		x.storePlace(st, p, x.s.zero(t))
		fr.vals[i] = V{T: i.Type(), S: ref}
		if !i.Heap && x.specMode == 0 {
			hk, ht := heapKeyForObj(t)
			x.protected = append(x.protected, protEntry{key: hk, t: t, ht: ht, ref: ref})
		}
	case *ssa.BinOp:
		fr.vals[i] = x.binop(fr, st, i.Op, x.value(fr, i.X), x.value(fr, i.Y), i.Type(), i.Pos())
	case *ssa.UnOp:
		fr.vals[i] = x.unop(fr, st, i)
	case *ssa.Call:
		fr.vals[i] = x.call(fr, st, i, &i.Call, i.Pos())
	case *ssa.ChangeInterface:
		v := x.value(fr, i.X)
		fr.vals[i] = V{T: i.Type(), S: v.S}
	case *ssa.ChangeType:
		fr.vals[i] = x.convertStructural(x.value(fr, i.X), i.Type())
	case *ssa.Convert:
		fr.vals[i] = x.convert(fr, st, x.value(fr, i.X), i.Type(), i.Pos())
	case *ssa.Extract:
		tup := x.value(fr, i.Tuple)
		if i.Index < len(tup.Tup) {
			fr.vals[i] = tup.Tup[i.Index]
		} else {
			fr.vals[i] = V{T: i.Type(), S: x.s.zero(i.Type())}
		}
	case *ssa.Field:
		v := x.value(fr, i.X)
		ft := i.Type()
		fr.vals[i] = V{T: ft, S: x.define("fld", x.s.sortOf(ft), "("+x.s.accessor(v.T, i.Field)+" "+v.S+")")}
	case *ssa.FieldAddr:
		v := x.value(fr, i.X)
		if pt, ok := x.ptrTerm(v); ok {
			x.check(fr, st, i.Pos(), "nil-deref", "(not (= "+pt+" 0))")
		}
		base := x.placeOf(v)
		from := base.Type()
		ft := i.Type().(*types.Pointer).Elem()
		fr.vals[i] = V{T: i.Type(), Pl: base.extend(PathSel{Field: i.Field, T: ft, From: from})}
	case *ssa.Index:
		v := x.value(fr, i.X)
		idx := x.toMathInt(x.value(fr, i.Index))
		switch u := v.T.Underlying().(type) {
		case *types.Array:
			x.check(fr, st, i.Pos(), "index", and("(<= 0 "+idx+")", fmt.Sprintf("(< %s %d)", idx, u.Len())))
			fr.vals[i] = V{T: i.Type(), S: x.define("idx", x.s.sortOf(i.Type()), "(select "+v.S+" "+idx+")")}
		default: // string
			x.check(fr, st, i.Pos(), "index", and("(<= 0 "+idx+")", "(< "+idx+" "+x.strLen(v.S)+")"))
			fr.vals[i] = x.strAt(st, v.S, idx)
		}
	case *ssa.IndexAddr:
		v := x.value(fr, i.X)
		idx := x.toMathInt(x.value(fr, i.Index))
		switch u := v.T.Underlying().(type) {
		case *types.Slice:
			x.check(fr, st, i.Pos(), "index", and("(<= 0 "+idx+")", "(< "+idx+" (s_len "+v.S+"))"))
			abs := x.define("ai", "Int", "(+ (s_off "+v.S+") "+idx+")")
			fr.vals[i] = V{T: i.Type(), Pl: &Place{Arr: heapKeySlice(u.Elem()), Idx: []string{"(s_base " + v.S + ")", abs}, ElemT: u.Elem()}}
		case *types.Pointer:
			arr := u.Elem().Underlying().(*types.Array)
			if pt, ok := x.ptrTerm(v); ok {
				x.check(fr, st, i.Pos(), "nil-deref", "(not (= "+pt+" 0))")
			}
			x.check(fr, st, i.Pos(), "index", and("(<= 0 "+idx+")", fmt.Sprintf("(< %s %d)", idx, arr.Len())))
			base := x.placeOf(v)
			fr.vals[i] = V{T: i.Type(), Pl: base.extend(PathSel{Field: -1, Index: idx, T: arr.Elem(), From: base.Type()})}
		}
	case *ssa.Lookup:
		fr.vals[i] = x.lookup(fr, st, i)
	case *ssa.MakeClosure:
		var bs []V
		for _, b := range i.Bindings {
			bs = append(bs, x.value(fr, b))
		}
		fr.vals[i] = V{T: i.Type(), Cl: &Closure{Fn: i.Fn.(*ssa.Function), Bindings: bs}, S: "1"}
	case *ssa.MakeInterface:
		fr.vals[i] = x.makeInterface(st, x.value(fr, i.X), i.Type())
	case *ssa.MakeMap:
		ref := x.newRef(st)
		mt := i.Type().Underlying().(*types.Map)
		mp := x.heapGet(st, heapKeyMapP(mt), mt)
		x.heapSet(st, heapKeyMapP(mt), mt, "(store "+mp+" "+ref+" ((as const (Array "+x.s.sortOf(mt.Key())+" Bool)) false))")
		ml := x.heapGet(st, heapKeyMapL(mt), mt)
		x.heapSet(st, heapKeyMapL(mt), mt, "(store "+ml+" "+ref+" 0)")
		fr.vals[i] = V{T: i.Type(), S: ref}
	case *ssa.MakeChan:
		// a channel is a reference distinct from everything allocated before (its queue
		// and the operations on it are outside the subset)
		fr.vals[i] = V{T: i.Type(), S: x.newRef(st)}
	case *ssa.MakeSlice:
		n := x.toMathInt(x.value(fr, i.Len))
		c := x.toMathInt(x.value(fr, i.Cap))
		x.check(fr, st, i.Pos(), "makeslice", and("(<= 0 "+n+")", "(<= "+n+" "+c+")"))
		et := i.Type().Underlying().(*types.Slice).Elem()
		fr.vals[i] = x.newSlice(st, et, n, c, true)
	case *ssa.MapUpdate:
		x.mapUpdate(fr, st, x.value(fr, i.Map), x.value(fr, i.Key), x.value(fr, i.Value), i.Pos())
	case *ssa.Range:
		v := x.value(fr, i.X)
		fr.vals[i] = V{T: i.Type(), S: v.S, Tup: []V{v}}
		if _, ok := i.X.Type().Underlying().(*types.Map); ok {
			// ghost: number of entries this iteration has yielded so far (`rangecount`)
			x.heapSet(st, rangeCountKey(fr.fn, i), types.Typ[types.Int], "0")
		}
	case *ssa.Next:
		fr.vals[i] = x.next(fr, st, i)
	case *ssa.Slice:
		fr.vals[i] = x.sliceOp(fr, st, i)
	case *ssa.Store:
		addr := x.value(fr, i.Addr)
		if pt, ok := x.ptrTerm(addr); ok && addr.Pl == nil {
			x.check(fr, st, i.Pos(), "nil-deref", "(not (= "+pt+" 0))")
		}
		val := x.value(fr, i.Val)
		if val.Cl != nil {
			// a closure stored into its variable's cell (the variable is captured by another
			// closure): remember which closure the cell holds, when it is assigned only once
			if a, ok := i.Addr.(*ssa.Alloc); ok && singleStore(a) {
				if pt, ok := x.ptrTerm(addr); ok {
					if x.cellClosures == nil {
						x.cellClosures = map[string]*Closure{}
					}
					x.cellClosures[pt] = val.Cl
				}
			}
		}
		x.storePlace(st, x.placeOf(addr), x.encode(st, val))
	case *ssa.TypeAssert:
		fr.vals[i] = x.typeAssert(fr, st, i)
	case *ssa.Return:
		var rs []V
		for _, r := range i.Results {
			rs = append(rs, x.value(fr, r))
		}
		fr.rets = append(fr.rets, retInfo{guard: st.guard, results: rs, st: st.clone()})
	case *ssa.Panic:
		if fr.safety {
			x.addObl(&Obligation{Name: fmt.Sprintf("%s#safety.panic@%s", funcKey(x.stack[0]), x.prog.posShort(i.Pos(), fr.fn)), Kind: "safety",
				Func: funcKey(x.stack[0]), Pos: x.prog.pos(i.Pos()), Guard: st.guard, Formula: "false", Src: "explicit panic"})
		}
	case *ssa.If, *ssa.Jump:
		// handled by execBlock
	case *ssa.Defer:
		fr.defers = append(fr.defers, deferred{call: &i.Call, guard: st.guard, pos: i.Pos()})
	case *ssa.RunDefers:
		for k := len(fr.defers) - 1; k >= 0; k-- {
			d := fr.defers[k]
			x.runDeferred(fr, st, d)
		}
	case *ssa.Go:
		x.note("go statement in %s ignored (sequential semantics per call)", funcKey(fr.fn))
	case *ssa.Send:
		x.note("channel send in %s ignored", funcKey(fr.fn))
	case *ssa.Select:
		x.note("select in %s: results unconstrained", funcKey(fr.fn))
		fr.vals[i] = x.freshOfType(st, i.Type(), "sel")
	default:
		x.note("unsupported instruction %T in %s: result unconstrained", in, funcKey(fr.fn))
		if v, ok := in.(ssa.Value); ok {
			fr.vals[v] = x.freshOfType(st, v.Type(), "unk")
		}
	}
}

func (x *Exec) runDeferred(fr *Frame, st *State, d deferred) {
	// Deferred calls run on every exit; only calls whose effect matters are modelled.
	if callee := d.call.StaticCallee(); callee != nil {
		name := fullFuncKey(callee)
		if strings.HasPrefix(name, "sync.") {
			return
		}
	}
	if d.guard == st.guard || d.guard == "true" {
		x.callCommon(fr, st, nil, d.call, d.pos)
		return
	}
	// conditional defer: run on a copy and merge
	ran := st.clone()
	ran.guard = x.define("g", "Bool", and(st.guard, d.guard))
	x.callCommon(fr, ran, nil, d.call, d.pos)
	skip := st.clone()
	skip.guard = x.define("g", "Bool", and(st.guard, not(d.guard)))
	m := x.mergeStates([]inEdge{{ran, ran.guard}, {skip, skip.guard}})
	g := st.guard
	*st = *m
	st.guard = g
}

// encode turns a value into an SMT term storable in the heap.
func (x *Exec) encode(st *State, v V) string {
	if v.Cl != nil && v.S == "" {
		return "1"
	}
	if v.Pl != nil {
		if pt, ok := x.ptrTerm(v); ok {
			return pt
		}
		x.note("interior pointer stored to memory (treated as an opaque reference)")
		return x.s.declare("optr", "Int")
	}
	return v.S
}

func (x *Exec) freshOfType(st *State, t types.Type, prefix string) V {
	if tup, ok := t.(*types.Tuple); ok {
		var vs []V
		for i := 0; i < tup.Len(); i++ {
			vs = append(vs, x.freshOfType(st, tup.At(i).Type(), prefix))
		}
		return V{T: t, Tup: vs}
	}
	n := x.s.declare(prefix, x.s.sortOf(t))
	x.assume("true", x.valueInv(st, t, n))
	return V{T: t, S: n}
}

// integer helpers -------------------------------------------------------------

// toMathInt converts an integer-typed value to an SMT Int term.
func (x *Exec) toMathInt(v V) string {
	if !x.s.bv || v.Math {
		return v.S
	}
	_, signed, ok := intInfo(v.T)
	if !ok {
		return v.S
	}
	if signed {
		bits, _, _ := intInfo(v.T)
		if bits == 0 {
			bits = 64
		}
		return fmt.Sprintf("(ite (bvslt %s (_ bv0 %d)) (- (bv2nat %s) %s) (bv2nat %s))", v.S, bits, v.S, pow2(bits).String(), v.S)
	}
	return "(bv2nat " + v.S + ")"
}

// fromMathInt converts an SMT Int term (known to be in range) to the
// representation of Go type t.
func (x *Exec) fromMathInt(t types.Type, term string) string {
	if !x.s.bv {
		return term
	}
	bits, _, _ := intInfo(t)
	if bits == 0 {
		bits = 64
	}
	return fmt.Sprintf("((_ int2bv %d) %s)", bits, term)
}

func (x *Exec) wrap(t types.Type, term string) string {
	bits, signed, ok := intInfo(t)
	if !ok || bits == 0 {
		return term
	}
	m := pow2(bits).String()
	if !signed {
		return "(mod " + term + " " + m + ")"
	}
	h := pow2(bits - 1).String()
	return "(- (mod (+ " + term + " " + h + ") " + m + ") " + h + ")"
}

func (x *Exec) wrapAddSub(t types.Type, term string) string {
	// result of one add/sub of in-range operands: at most one wrap
	bits, signed, ok := intInfo(t)
	if !ok || bits == 0 {
		return term
	}
	m := pow2(bits).String()
	lo, hi := intRange(bits, signed)
	tn := x.define("ar", "Int", term)
	return "(ite (> " + tn + " " + smtInt(hi) + ") (- " + tn + " " + m + ") (ite (< " + tn + " " + smtInt(lo) + ") (+ " + tn + " " + m + ") " + tn + "))"
}

func (x *Exec) binop(fr *Frame, st *State, op token.Token, a, b V, rt types.Type, pos token.Pos) V {
	so := x.s.sortOf(rt)
	mk := func(term string) V { return V{T: rt, S: x.define("b", so, term)} }
	// strings
	if isString(a.T) {
		switch op {
		case token.ADD:
			return mk(x.strConcat(a.S, b.S))
		case token.EQL:
			return mk("(= " + a.S + " " + b.S + ")")
		case token.NEQ:
			return mk("(not (= " + a.S + " " + b.S + "))")
		case token.LSS:
			return mk(x.strLt(a.S, b.S))
		case token.GTR:
			return mk(x.strLt(b.S, a.S))
		case token.LEQ:
			return mk(not(x.strLt(b.S, a.S)))
		case token.GEQ:
			return mk(not(x.strLt(a.S, b.S)))
		}
	}
	_, _, isInt := intInfo(a.T)
	if !isInt {
		switch op {
		case token.EQL:
			return mk(x.eqVals(st, a, b))
		case token.NEQ:
			return mk(not(x.eqVals(st, a, b)))
		case token.AND, token.LAND:
			return mk(and(a.S, b.S))
		case token.OR, token.LOR:
			return mk(or(a.S, b.S))
		case token.XOR:
			return mk("(xor " + a.S + " " + b.S + ")")
		case token.ADD:
			return mk("(+ " + a.S + " " + b.S + ")")
		case token.SUB:
			return mk("(- " + a.S + " " + b.S + ")")
		case token.MUL:
			return mk("(* " + a.S + " " + b.S + ")")
		case token.QUO:
			return mk("(/ " + a.S + " " + b.S + ")")
		case token.LSS:
			return mk("(< " + a.S + " " + b.S + ")")
		case token.LEQ:
			return mk("(<= " + a.S + " " + b.S + ")")
		case token.GTR:
			return mk("(> " + a.S + " " + b.S + ")")
		case token.GEQ:
			return mk("(>= " + a.S + " " + b.S + ")")
		}
		x.note("unsupported non-integer binop %s", op)
		return x.freshOfType(st, rt, "binop")
	}
	if x.s.bv {
		return x.binopBV(fr, st, op, a, b, rt, pos)
	}
	bits, signed, _ := intInfo(a.T)
	switch op {
	case token.EQL:
		return mk("(= " + a.S + " " + b.S + ")")
	case token.NEQ:
		return mk("(not (= " + a.S + " " + b.S + "))")
	case token.LSS:
		return mk("(< " + a.S + " " + b.S + ")")
	case token.LEQ:
		return mk("(<= " + a.S + " " + b.S + ")")
	case token.GTR:
		return mk("(> " + a.S + " " + b.S + ")")
	case token.GEQ:
		return mk("(>= " + a.S + " " + b.S + ")")
	case token.ADD:
		return mk(x.wrapAddSub(rt, "(+ "+a.S+" "+b.S+")"))
	case token.SUB:
		return mk(x.wrapAddSub(rt, "(- "+a.S+" "+b.S+")"))
	case token.MUL:
		return mk(x.wrap(rt, "(* "+a.S+" "+b.S+")"))
	case token.QUO:
		x.check(fr, st, pos, "div-by-zero", "(not (= "+b.S+" 0))")
		if signed {
			// Go truncates toward zero
			q := "(ite (>= " + a.S + " 0) (ite (> " + b.S + " 0) (div " + a.S + " " + b.S + ") (- (div " + a.S + " (- " + b.S + ")))) (ite (> " + b.S + " 0) (- (div (- " + a.S + ") " + b.S + ")) (div (- " + a.S + ") (- " + b.S + "))))"
			return mk(x.wrap(rt, q))
		}
		return mk("(div " + a.S + " " + b.S + ")")
	case token.REM:
		x.check(fr, st, pos, "div-by-zero", "(not (= "+b.S+" 0))")
		if signed {
			r := "(ite (>= " + a.S + " 0) (mod " + a.S + " (abs " + b.S + ")) (- (mod (- " + a.S + ") (abs " + b.S + "))))"
			return mk(r)
		}
		return mk("(mod " + a.S + " " + b.S + ")")
	case token.SHL, token.SHR:
		if k, ok := constIntTerm(b.S); ok && k.IsInt64() && k.Int64() >= 0 && k.Int64() < 256 {
			p := pow2(int(k.Int64())).String()
			if op == token.SHL {
				return mk(x.wrap(rt, "(* "+a.S+" "+p+")"))
			}
			return mk("(div " + a.S + " " + p + ")") // floor division = arithmetic shift for signed too
		}
		// variable shift: pow2 via uninterpreted function with bounded table
		x.s.declareUF("pow2", "(Int)", "Int")
		for k := 0; k <= 64; k++ {
			x.s.onceAssert(fmt.Sprintf("(= (pow2 %d) %s)", k, pow2(k).String()))
		}
		sh := b.S
		_, bsigned, _ := intInfo(b.T)
		if bsigned {
			x.check(fr, st, pos, "negative-shift", "(>= "+sh+" 0)")
		}
		if op == token.SHL {
			return mk("(ite (>= " + sh + " " + fmt.Sprint(bits) + ") 0 " + x.wrap(rt, "(* "+a.S+" (pow2 "+sh+"))") + ")")
		}
		if signed {
			return mk("(ite (>= " + sh + " " + fmt.Sprint(bits) + ") (ite (< " + a.S + " 0) (- 1) 0) (div " + a.S + " (pow2 " + sh + ")))")
		}
		return mk("(ite (>= " + sh + " " + fmt.Sprint(bits) + ") 0 (div " + a.S + " (pow2 " + sh + ")))")
	case token.AND, token.OR, token.XOR, token.AND_NOT:
		// constant masks of the form 2^k-1 are exact; others go through a bit-vector bridge
		if op == token.AND && !signed {
			if k, ok := constIntTerm(b.S); ok {
				kk := new(big.Int).Add(k, big.NewInt(1))
				if kk.Sign() > 0 && new(big.Int).And(kk, k).Sign() == 0 {
					return mk("(mod " + a.S + " " + kk.String() + ")")
				}
			}
			if k, ok := constIntTerm(a.S); ok {
				kk := new(big.Int).Add(k, big.NewInt(1))
				if kk.Sign() > 0 && new(big.Int).And(kk, k).Sign() == 0 {
					return mk("(mod " + b.S + " " + kk.String() + ")")
				}
			}
		}
		if bits == 0 {
			bits = 64
		}
		opn := map[token.Token]string{token.AND: "bvand", token.OR: "bvor", token.XOR: "bvxor"}[op]
		ab := fmt.Sprintf("((_ int2bv %d) %s)", bits, a.S)
		bb := fmt.Sprintf("((_ int2bv %d) %s)", bits, b.S)
		var r string
		if op == token.AND_NOT {
			r = "(bvand " + ab + " (bvnot " + bb + "))"
		} else {
			r = "(" + opn + " " + ab + " " + bb + ")"
		}
		res := "(bv2nat " + r + ")"
		if signed {
			res = x.wrap(rt, res)
		}
		return mk(res)
	}
	x.note("unsupported integer binop %s", op)
	return x.freshOfType(st, rt, "binop")
}

func constIntTerm(s string) (*big.Int, bool) {
	if strings.HasPrefix(s, "(- ") && strings.HasSuffix(s, ")") {
		v, ok := new(big.Int).SetString(s[3:len(s)-1], 10)
		if ok {
			return v.Neg(v), true
		}
		return nil, false
	}
	v, ok := new(big.Int).SetString(s, 10)
	return v, ok
}

func (s *Script) declareUF(name, args, ret string) {
	if s.uf[name] {
		return
	}
	s.uf[name] = true
	s.prelude = append(s.prelude, fmt.Sprintf("(declare-fun %s %s %s)", name, args, ret))
}

func (s *Script) onceAssert(f string) {
	if s.uf["assert:"+f] {
		return
	}
	s.uf["assert:"+f] = true
	s.prelude = append(s.prelude, "(assert "+f+")")
}

func (x *Exec) binopBV(fr *Frame, st *State, op token.Token, a, b V, rt types.Type, pos token.Pos) V {
	so := x.s.sortOf(rt)
	mk := func(term string) V { return V{T: rt, S: x.define("b", so, term)} }
	bits, signed, _ := intInfo(a.T)
	if bits == 0 {
		bits = 64
	}
	cmp := func(u, s string) string {
		if signed {
			return s
		}
		return u
	}
	// shift operand may have a different width
	bS := b.S
	if op == token.SHL || op == token.SHR {
		bb, _, _ := intInfo(b.T)
		if bb == 0 {
			bb = 64
		}
		if bb < bits {
			bS = fmt.Sprintf("((_ zero_extend %d) %s)", bits-bb, b.S)
		} else if bb > bits {
			// saturate: if any high bit set the shift is >= width
			hi := fmt.Sprintf("((_ extract %d %d) %s)", bb-1, bits, b.S)
			lo := fmt.Sprintf("((_ extract %d 0) %s)", bits-1, b.S)
			bS = fmt.Sprintf("(ite (= %s (_ bv0 %d)) %s (_ bv%d %d))", hi, bb-bits, lo, bits, bits)
		}
	}
	switch op {
	case token.EQL:
		return mk("(= " + a.S + " " + b.S + ")")
	case token.NEQ:
		return mk("(not (= " + a.S + " " + b.S + "))")
	case token.LSS:
		return mk("(" + cmp("bvult", "bvslt") + " " + a.S + " " + b.S + ")")
	case token.LEQ:
		return mk("(" + cmp("bvule", "bvsle") + " " + a.S + " " + b.S + ")")
	case token.GTR:
		return mk("(" + cmp("bvugt", "bvsgt") + " " + a.S + " " + b.S + ")")
	case token.GEQ:
		return mk("(" + cmp("bvuge", "bvsge") + " " + a.S + " " + b.S + ")")
	case token.ADD:
		return mk("(bvadd " + a.S + " " + b.S + ")")
	case token.SUB:
		return mk("(bvsub " + a.S + " " + b.S + ")")
	case token.MUL:
		return mk("(bvmul " + a.S + " " + b.S + ")")
	case token.QUO:
		x.check(fr, st, pos, "div-by-zero", fmt.Sprintf("(not (= %s (_ bv0 %d)))", b.S, bits))
		return mk("(" + cmp("bvudiv", "bvsdiv") + " " + a.S + " " + b.S + ")")
	case token.REM:
		x.check(fr, st, pos, "div-by-zero", fmt.Sprintf("(not (= %s (_ bv0 %d)))", b.S, bits))
		return mk("(" + cmp("bvurem", "bvsrem") + " " + a.S + " " + b.S + ")")
	case token.AND:
		return mk("(bvand " + a.S + " " + b.S + ")")
	case token.OR:
		return mk("(bvor " + a.S + " " + b.S + ")")
	case token.XOR:
		return mk("(bvxor " + a.S + " " + b.S + ")")
	case token.AND_NOT:
		return mk("(bvand " + a.S + " (bvnot " + b.S + "))")
	case token.SHL:
		return mk("(bvshl " + a.S + " " + bS + ")")
	case token.SHR:
		return mk("(" + cmp("bvlshr", "bvashr") + " " + a.S + " " + bS + ")")
	}
	x.note("unsupported bv binop %s", op)
	return x.freshOfType(st, rt, "binop")
}

func isString(t types.Type) bool {
	b, ok := t.Underlying().(*types.Basic)
	return ok && b.Info()&types.IsString != 0
}

func (x *Exec) eqVals(st *State, a, b V) string {
	if a.Pl != nil || b.Pl != nil {
		at, aok := x.ptrTerm(a)
		bt, bok := x.ptrTerm(b)
		if aok && bok {
			return "(= " + at + " " + bt + ")"
		}
		// interior pointer compared with nil: never nil
		if aok && at == "0" || bok && bt == "0" {
			return "false"
		}
		x.note("comparison of interior pointers (unconstrained)")
		return x.s.declare("ptreq", "Bool")
	}
	if _, ok := a.T.Underlying().(*types.Slice); ok {
		// only comparison with nil is legal
		other := a
		if a.S == "(mk_slice 0 0 0 0)" {
			other = b
		}
		return "(= (s_base " + other.S + ") 0)"
	}
	if a.Cl != nil || b.Cl != nil {
		if a.Cl != nil && b.Cl == nil {
			return "(= 1 " + b.S + ")"
		}
		if b.Cl != nil && a.Cl == nil {
			return "(= " + a.S + " 1)"
		}
	}
	return "(= " + a.S + " " + b.S + ")"
}

// singleStore: the cell is assigned exactly once in its function.
func singleStore(a *ssa.Alloc) bool {
	if a.Referrers() == nil {
		return false
	}
	n := 0
	for _, ref := range *a.Referrers() {
		if stv, ok := ref.(*ssa.Store); ok && stv.Addr == a {
			n++
		}
	}
	return n == 1
}

func (x *Exec) unop(fr *Frame, st *State, i *ssa.UnOp) V {
	v := x.value(fr, i.X)
	switch i.Op {
	case token.MUL: // load
		if pt, ok := x.ptrTerm(v); ok && v.Pl == nil {
			x.check(fr, st, i.Pos(), "nil-deref", "(not (= "+pt+" 0))")
		}
		p := x.placeOf(v)
		if strings.HasPrefix(p.Arr, "G:") {
			return x.loadGlobal(st, p, i.X)
		}
		lv := x.loadPlace(st, p)
		if _, isFn := lv.T.Underlying().(*types.Signature); isFn && x.cellClosures != nil {
			if pt, ok := x.ptrTerm(v); ok {
				if cl := x.cellClosures[pt]; cl != nil {
					lv.Cl = cl
				}
			}
		}
		return lv
	case token.NOT:
		return V{T: i.Type(), S: not(v.S)}
	case token.SUB:
		if x.s.bv {
			return V{T: i.Type(), S: "(bvneg " + v.S + ")"}
		}
		if _, _, ok := intInfo(v.T); ok {
			return V{T: i.Type(), S: x.define("neg", "Int", x.wrapAddSub(i.Type(), "(- 0 "+v.S+")"))}
		}
		return V{T: i.Type(), S: "(- " + v.S + ")"}
	case token.XOR:
		if x.s.bv {
			return V{T: i.Type(), S: "(bvnot " + v.S + ")"}
		}
		bits, signed, _ := intInfo(v.T)
		if signed {
			return V{T: i.Type(), S: "(- (- " + v.S + ") 1)"}
		}
		_, hi := intRange(bits, false)
		return V{T: i.Type(), S: "(- " + hi.String() + " " + v.S + ")"}
	case token.ARROW:
		x.note("channel receive in %s: value unconstrained", funcKey(fr.fn))
		return x.freshOfType(st, i.Type(), "recv")
	}
	x.note("unsupported unop %s", i.Op)
	return x.freshOfType(st, i.Type(), "unop")
}

// loadGlobal: immutable globals (never stored to outside init) are constants.
func (x *Exec) loadGlobal(st *State, p *Place, src ssa.Value) V {
	g, _ := src.(*ssa.Global)
	if g != nil && len(p.Path) == 0 && x.prog.immutableGlobal(g) {
		name := "gconst_" + sanitize(g.Pkg.Pkg.Path()+"."+g.Name())
		t := p.ElemT
		if !x.s.declared[name] {
			x.s.declared[name] = true
			x.s.prelude = append(x.s.prelude, fmt.Sprintf("(declare-const %s %s)", name, x.s.sortOf(t)))
			if inv := x.s.typeInv(t, name); inv != "true" {
				x.s.prelude = append(x.s.prelude, "(assert "+inv+")")
			}
			if types.Identical(t, types.Universe.Lookup("error").Type()) {
				// sentinel errors: non-nil, pairwise distinct (initialised once by errors.New / fmt.Errorf)
				x.s.prelude = append(x.s.prelude, fmt.Sprintf("(assert (> %s 0))", name))
				for _, o := range x.errGlobals {
					x.s.prelude = append(x.s.prelude, fmt.Sprintf("(assert (not (= %s %s)))", name, o))
				}
				x.errGlobals = append(x.errGlobals, name)
				x.note("assumed: package-level error variables are initialised once to distinct non-nil values")
			}
		}
		return V{T: t, S: name}
	}
	return x.loadPlace(st, p)
}

func (x *Exec) convertStructural(v V, to types.Type) V {
	if v.Cl != nil || v.Pl != nil {
		nv := v
		nv.T = to
		return nv
	}
	fs, ok1 := v.T.Underlying().(*types.Struct)
	ts, ok2 := to.Underlying().(*types.Struct)
	if ok1 && ok2 && x.s.sortOf(v.T) != x.s.sortOf(to) {
		var fields []string
		for i := 0; i < fs.NumFields(); i++ {
			fv := V{T: fs.Field(i).Type(), S: "(" + x.s.accessor(v.T, i) + " " + v.S + ")"}
			fields = append(fields, x.convertStructural(fv, ts.Field(i).Type()).S)
		}
		return V{T: to, S: x.s.mkStruct(to, fields)}
	}
	return V{T: to, S: v.S}
}

func (x *Exec) convert(fr *Frame, st *State, v V, to types.Type, pos token.Pos) V {
	fb, fsigned, fint := intInfo(v.T)
	tb, tsigned, tint := intInfo(to)
	if fint && tint {
		if fb == 0 {
			fb = 64
		}
		if x.s.bv {
			switch {
			case tb == fb:
				return V{T: to, S: v.S}
			case tb < fb:
				return V{T: to, S: fmt.Sprintf("((_ extract %d 0) %s)", tb-1, v.S)}
			case fsigned:
				return V{T: to, S: fmt.Sprintf("((_ sign_extend %d) %s)", tb-fb, v.S)}
			default:
				return V{T: to, S: fmt.Sprintf("((_ zero_extend %d) %s)", tb-fb, v.S)}
			}
		}
		// int mode: value fits iff target range contains source range
		flo, fhi := intRange(fb, fsigned)
		tlo, thi := intRange(tb, tsigned)
		if flo.Cmp(tlo) >= 0 && fhi.Cmp(thi) <= 0 {
			return V{T: to, S: v.S}
		}
		if fb == tb {
			// same width sign reinterpretation: one conditional
			m := pow2(tb).String()
			if tsigned {
				return V{T: to, S: x.define("cv", "Int", "(ite (> "+v.S+" "+smtInt(thi)+") (- "+v.S+" "+m+") "+v.S+")")}
			}
			return V{T: to, S: x.define("cv", "Int", "(ite (< "+v.S+" 0) (+ "+v.S+" "+m+") "+v.S+")")}
		}
		return V{T: to, S: x.define("cv", "Int", x.wrap(to, v.S))}
	}
	// string <-> []byte
	if isString(v.T) {
		if sl, ok := to.Underlying().(*types.Slice); ok {
			n := x.strLen(v.S)
			res := x.newSlice(st, sl.Elem(), n, n, false)
			// contents equal the string's bytes
			sarr := x.heapGet(st, heapKeySlice(sl.Elem()), sl.Elem())
			if !x.s.strSMT {
				x.assume(st.guard, fmt.Sprintf("(forall ((ci! Int)) (! (=> (and (<= 0 ci!) (< ci! %s)) (= (select (select %s (s_base %s)) ci!) (sat %s ci!))) :pattern ((select (select %s (s_base %s)) ci!))))", n, sarr, res.S, v.S, sarr, res.S))
			}
			return res
		}
		if isString(to) {
			return V{T: to, S: v.S}
		}
	}
	if sl, ok := v.T.Underlying().(*types.Slice); ok && isString(to) {
		// string(b): fresh string with the slice's length and bytes
		n := x.s.declare("str", x.s.strSort())
		x.assume(st.guard, "(= "+x.strLen(n)+" (s_len "+v.S+"))")
		if !x.s.strSMT {
			sarr := x.heapGet(st, heapKeySlice(sl.Elem()), sl.Elem())
			x.s.declareUF("bytes2str", "(Int (Array Int Int) Int Int)", "Str")
			// functional: same bytes give the same string
			term := fmt.Sprintf("(bytes2str 0 (select %s (s_base %s)) (s_off %s) (s_len %s))", sarr, v.S, v.S, v.S)
			x.assume(st.guard, "(= "+n+" "+term+")")
			x.assume(st.guard, fmt.Sprintf("(forall ((ci! Int)) (! (=> (and (<= 0 ci!) (< ci! (s_len %s))) (= (sat %s ci!) (select (select %s (s_base %s)) (+ (s_off %s) ci!)))) :pattern ((sat %s ci!))))", v.S, n, sarr, v.S, v.S, n))
		}
		return V{T: to, S: n}
	}
	if fint && isString(to) {
		x.note("integer to string conversion (unconstrained)")
		return x.freshOfType(st, to, "str")
	}
	// pointer <-> unsafe.Pointer, float conversions, etc.
	if x.s.sortOf(v.T) == x.s.sortOf(to) {
		return V{T: to, S: v.S, Pl: v.Pl, Cl: v.Cl}
	}
	if fint && x.s.sortOf(to) == "Real" {
		return V{T: to, S: "(to_real " + x.toMathInt(v) + ")"}
	}
	if x.s.sortOf(v.T) == "Real" && tint {
		x.note("float to integer conversion (unconstrained)")
		return x.freshOfType(st, to, "f2i")
	}
	x.note("unsupported conversion %s -> %s (unconstrained)", v.T, to)
	return x.freshOfType(st, to, "conv")
}

// strings ----------------------------------------------------------------------

func (x *Exec) strLen(s string) string {
	if x.s.strSMT {
		return "(str.len " + s + ")"
	}
	x.s.useStr("len")
	return "(slen " + s + ")"
}

func (x *Exec) strConcat(a, b string) string {
	if x.s.strSMT {
		return "(str.++ " + a + " " + b + ")"
	}
	x.s.useStr("concat")
	return "(sconcat " + a + " " + b + ")"
}

func (x *Exec) strLt(a, b string) string {
	if x.s.strSMT {
		return "(str.< " + a + " " + b + ")"
	}
	x.s.useStr("lt")
	return "(slt " + a + " " + b + ")"
}

func (x *Exec) strAt(st *State, s, idx string) V {
	t := types.Typ[types.Uint8]
	if x.s.strSMT {
		x.s.strBytes = true
		return V{T: t, S: x.fromMathInt(t, "(str.to_code (str.at "+s+" "+idx+"))")}
	}
	term := "(sat " + s + " " + idx + ")"
	x.assume(st.guard, and("(<= 0 "+term+")", "(<= "+term+" 255)"))
	return V{T: t, S: x.fromMathInt(t, term)}
}

// slices ------------------------------------------------------------------------

func (x *Exec) newSlice(st *State, et types.Type, n, c string, zeroed bool) V {
	base := x.newRef(st)
	key := heapKeySlice(et)
	if zeroed {
		sarr := x.heapGet(st, key, et)
		x.heapSet(st, key, et, "(store "+sarr+" "+base+" "+x.s.constArr("(Array Int "+x.s.sortOf(et)+")", x.s.zero(et))+")")
	}
	st2 := types.NewSlice(et)
	return V{T: st2, S: x.define("sl", "Slice", "(mk_slice "+base+" 0 "+n+" "+c+")")}
}

func (x *Exec) sliceElem(st *State, sl V, idx string) string {
	et := sl.T.Underlying().(*types.Slice).Elem()
	sarr := x.heapGet(st, heapKeySlice(et), et)
	return "(select (select " + sarr + " (s_base " + sl.S + ")) (+ (s_off " + sl.S + ") " + idx + "))"
}

func (x *Exec) sliceOp(fr *Frame, st *State, i *ssa.Slice) V {
	v := x.value(fr, i.X)
	lo := "0"
	if i.Low != nil {
		lo = x.toMathInt(x.value(fr, i.Low))
	}
	switch u := v.T.Underlying().(type) {
	case *types.Slice:
		hi := "(s_len " + v.S + ")"
		if i.High != nil {
			hi = x.toMathInt(x.value(fr, i.High))
		}
		mx := "(s_cap " + v.S + ")"
		if i.Max != nil {
			mx = x.toMathInt(x.value(fr, i.Max))
		}
		x.check(fr, st, i.Pos(), "slice-bounds", and("(<= 0 "+lo+")", "(<= "+lo+" "+hi+")", "(<= "+hi+" "+mx+")", "(<= "+mx+" (s_cap "+v.S+"))"))
		// s[lo:hi] of a nil slice stays nil only when lo == hi == 0; base is kept.
		return V{T: i.Type(), S: x.define("sl", "Slice", "(mk_slice (s_base "+v.S+") (+ (s_off "+v.S+") "+lo+") (- "+hi+" "+lo+") (- "+mx+" "+lo+"))")}
	case *types.Basic: // string
		hi := x.strLen(v.S)
		if i.High != nil {
			hi = x.toMathInt(x.value(fr, i.High))
		}
		x.check(fr, st, i.Pos(), "slice-bounds", and("(<= 0 "+lo+")", "(<= "+lo+" "+hi+")", "(<= "+hi+" "+x.strLen(v.S)+")"))
		if x.s.strSMT {
			return V{T: i.Type(), S: x.define("ss", "String", "(str.substr "+v.S+" "+lo+" (- "+hi+" "+lo+"))")}
		}
		term := x.define("ss", "Str", "(ssub "+v.S+" "+lo+" "+hi+")")
		x.s.useStr("len")
		x.assume(st.guard, "(= (slen "+term+") (- "+hi+" "+lo+"))")
		x.assume(st.guard, fmt.Sprintf("(forall ((ci! Int)) (! (=> (and (<= 0 ci!) (< ci! (- %s %s))) (= (sat %s ci!) (sat %s (+ %s ci!)))) :pattern ((sat %s ci!))))", hi, lo, term, v.S, lo, term))
		x.assume(st.guard, "(=> (and (= "+lo+" 0) (= "+hi+" (slen "+v.S+"))) (= "+term+" "+v.S+"))")
		return V{T: i.Type(), S: term}
	case *types.Pointer: // *[N]T
		arr := u.Elem().Underlying().(*types.Array)
		hi := fmt.Sprint(arr.Len())
		if i.High != nil {
			hi = x.toMathInt(x.value(fr, i.High))
		}
		x.check(fr, st, i.Pos(), "slice-bounds", and("(<= 0 "+lo+")", "(<= "+lo+" "+hi+")", fmt.Sprintf("(<= %s %d)", hi, arr.Len())))
		p := x.placeOf(v)
		if strings.HasPrefix(p.Arr, "S:") && len(p.Idx) == 1 && len(p.Path) == 0 {
			// a standalone array object lives in slice storage: the slice aliases it exactly
			return V{T: i.Type(), S: x.define("sl", "Slice", fmt.Sprintf("(mk_slice %s %s (- %s %s) (- %d %s))", p.Idx[0], lo, hi, lo, arr.Len(), lo))}
		}
		// an array embedded in a struct: the slice gets a copy of the current contents; writes
		// through the slice are NOT reflected back into the struct field (noted).
		cur := x.loadPlace(st, p)
		base := x.newRef(st)
		key := heapKeySlice(arr.Elem())
		sarr := x.heapGet(st, key, arr.Elem())
		x.heapSet(st, key, arr.Elem(), "(store "+sarr+" "+base+" "+cur.S+")")
		x.note("slice of an array embedded in a struct in %s: writes through the slice are not reflected in the field", funcKey(fr.fn))
		return V{T: i.Type(), S: x.define("sl", "Slice", fmt.Sprintf("(mk_slice %s %s (- %s %s) (- %d %s))", base, lo, hi, lo, arr.Len(), lo))}
	}
	x.note("unsupported slice operand %s", v.T)
	return x.freshOfType(st, i.Type(), "slice")
}

// maps ----------------------------------------------------------------------------

func (x *Exec) mapPresent(st *State, m V, key string) string {
	mt := m.T.Underlying().(*types.Map)
	return "(select (select " + x.heapGet(st, heapKeyMapP(mt), mt) + " " + m.S + ") " + key + ")"
}

func (x *Exec) mapValue(st *State, m V, key string) string {
	mt := m.T.Underlying().(*types.Map)
	return "(select (select " + x.heapGet(st, heapKeyMapV(mt), mt) + " " + m.S + ") " + key + ")"
}

func (x *Exec) mapLen(st *State, m V) string {
	mt := m.T.Underlying().(*types.Map)
	return "(select " + x.heapGet(st, heapKeyMapL(mt), mt) + " " + m.S + ")"
}

func (x *Exec) lookup(fr *Frame, st *State, i *ssa.Lookup) V {
	m := x.value(fr, i.X)
	k := x.value(fr, i.Index)
	if isString(m.T) {
		idx := x.toMathInt(k)
		x.check(fr, st, i.Pos(), "index", and("(<= 0 "+idx+")", "(< "+idx+" "+x.strLen(m.S)+")"))
		return x.strAt(st, m.S, idx)
	}
	mt := m.T.Underlying().(*types.Map)
	ks := x.encode(st, k)
	pres := x.define("mp", "Bool", x.mapPresent(st, m, ks))
	val := x.define("mv", x.s.sortOf(mt.Elem()), ite(pres, x.mapValue(st, m, ks), x.s.zero(mt.Elem())))
	x.assume(st.guard, x.valueInv(st, mt.Elem(), val))
	if _, isFn := mt.Elem().Underlying().(*types.Signature); isFn {
		if dt, _ := x.dispatchTableOf(i); dt != nil {
			// a dispatch table registers named functions only: a present key has a non-nil value
			x.assume(st.guard, implies(pres, "(not (= "+val+" 0))"))
		}
	}
	vv := V{T: mt.Elem(), S: val}
	if i.CommaOk {
		return V{T: i.Type(), Tup: []V{vv, {T: types.Typ[types.Bool], S: pres}}}
	}
	return vv
}

func (x *Exec) mapUpdate(fr *Frame, st *State, m, k, v V, pos token.Pos) {
	mt := m.T.Underlying().(*types.Map)
	x.check(fr, st, pos, "nil-map-write", "(not (= "+m.S+" 0))")
	ks := x.encode(st, k)
	vs := x.encode(st, v)
	pres := x.define("mp", "Bool", x.mapPresent(st, m, ks))
	mp := x.heapGet(st, heapKeyMapP(mt), mt)
	mv := x.heapGet(st, heapKeyMapV(mt), mt)
	ml := x.heapGet(st, heapKeyMapL(mt), mt)
	x.heapSet(st, heapKeyMapP(mt), mt, "(store "+mp+" "+m.S+" (store (select "+mp+" "+m.S+") "+ks+" true))")
	x.heapSet(st, heapKeyMapV(mt), mt, "(store "+mv+" "+m.S+" (store (select "+mv+" "+m.S+") "+ks+" "+vs+"))")
	x.heapSet(st, heapKeyMapL(mt), mt, "(store "+ml+" "+m.S+" (+ (select "+ml+" "+m.S+") (ite "+pres+" 0 1)))")
}

func (x *Exec) mapDelete(st *State, m V, k V) {
	mt := m.T.Underlying().(*types.Map)
	ks := x.encode(st, k)
	pres := x.define("mp", "Bool", and("(not (= "+m.S+" 0))", x.mapPresent(st, m, ks)))
	mp := x.heapGet(st, heapKeyMapP(mt), mt)
	ml := x.heapGet(st, heapKeyMapL(mt), mt)
	x.heapSet(st, heapKeyMapP(mt), mt, "(ite (= "+m.S+" 0) "+mp+" (store "+mp+" "+m.S+" (store (select "+mp+" "+m.S+") "+ks+" false)))")
	x.heapSet(st, heapKeyMapL(mt), mt, "(store "+ml+" "+m.S+" (- (select "+ml+" "+m.S+") (ite "+pres+" 1 0)))")
}

func (x *Exec) next(fr *Frame, st *State, i *ssa.Next) V {
	rng := x.value(fr, i.Iter)
	tup := i.Type().(*types.Tuple)
	okv := V{T: types.Typ[types.Bool], S: x.s.declare("next_ok", "Bool")}
	if i.IsString {
		x.note("range over string in %s: iteration values unconstrained", funcKey(fr.fn))
		return V{T: tup, Tup: []V{okv, x.freshOfType(st, tup.At(1).Type(), "rk"), x.freshOfType(st, tup.At(2).Type(), "rv")}}
	}
	m := rng.Tup[0]
	mt := m.T.Underlying().(*types.Map)
	k := x.freshOfType(st, mt.Key(), "rk")
	// an iteration yields a key present in the map at this moment
	x.assume(st.guard, implies(okv.S, and("(not (= "+m.S+" 0))", x.mapPresent(st, m, k.S))))
	// an empty map yields nothing
	x.assume(st.guard, implies("(= "+x.mapLen(st, m)+" 0)", not(okv.S)))
	if rg, ok := i.Iter.(*ssa.Range); ok {
		key := rangeCountKey(fr.fn, rg)
		cnt := x.heapGet(st, key, types.Typ[types.Int])
		if x.rangeMapStable(fr, i, mt) {
			// a map that the loop does not write is visited entry by entry, each exactly once:
			// the iteration goes on exactly while fewer than len(m) entries have been yielded
			x.assume(st.guard, "(= "+okv.S+" (< "+cnt+" "+x.mapLen(st, m)+"))")
		}
		x.heapSet(st, key, types.Typ[types.Int], "(+ "+cnt+" (ite "+okv.S+" 1 0))")
	}
	val := x.define("rv", x.s.sortOf(mt.Elem()), x.mapValue(st, m, k.S))
	x.assume(st.guard, x.valueInv(st, mt.Elem(), val))
	kv := k
	kv.T = tup.At(1).Type()
	return V{T: tup, Tup: []V{okv, kv, {T: tup.At(2).Type(), S: val}}}
}

// interfaces -------------------------------------------------------------------------

func (x *Exec) typeID(t types.Type) int { return x.s.keyID("type:" + typeKey(t)) }

func (x *Exec) boxFuncs(t types.Type) (string, string) {
	id := x.typeID(t)
	box := fmt.Sprintf("box_%d", id)
	unbox := fmt.Sprintf("unbox_%d", id)
	so := x.s.sortOf(t)
	x.s.declareUF("itag", "(Int)", "Int")
	x.s.onceAssert("(= (itag 0) 0)")
	x.s.declareUF(box, "("+so+")", "Int")
	x.s.declareUF(unbox, "(Int)", so)
	return box, unbox
}

func (x *Exec) makeInterface(st *State, v V, it types.Type) V {
	if v.Cl != nil || (v.Pl != nil && func() bool { _, ok := x.ptrTerm(v); return !ok }()) {
		n := x.s.declare("iface", "Int")
		x.assume("true", "(> "+n+" 0)")
		return V{T: it, S: n}
	}
	box, unbox := x.boxFuncs(v.T)
	term := x.encode(st, v)
	b := x.define("iface", "Int", "("+box+" "+term+")")
	x.assume("true", and("(= ("+unbox+" "+b+") "+term+")", fmt.Sprintf("(= (itag %s) %d)", b, x.typeID(v.T)), "(> "+b+" 0)"))
	dyn := v
	return V{T: it, S: b, Dyn: &dyn}
}

func (x *Exec) typeAssert(fr *Frame, st *State, i *ssa.TypeAssert) V {
	v := x.value(fr, i.X)
	var ok, val string
	if types.IsInterface(i.AssertedType) {
		okc := x.s.declare("ta_ok", "Bool")
		x.assume("true", implies(okc, "(not (= "+v.S+" 0))"))
		ok, val = okc, v.S
	} else {
		box, unbox := x.boxFuncs(i.AssertedType)
		ok = fmt.Sprintf("(= (itag %s) %d)", v.S, x.typeID(i.AssertedType))
		val = x.define("ta", x.s.sortOf(i.AssertedType), "("+unbox+" "+v.S+")")
		x.assume(st.guard, implies(ok, and("(= ("+box+" "+val+") "+v.S+")", x.valueInv(st, i.AssertedType, val))))
	}
	if i.CommaOk {
		okd := x.define("ta_ok", "Bool", ok)
		res := ite(okd, val, x.s.zero(i.AssertedType))
		return V{T: i.Type(), Tup: []V{{T: i.AssertedType, S: res}, {T: types.Typ[types.Bool], S: okd}}}
	}
	x.check(fr, st, i.Pos(), "type-assert", ok)
	return V{T: i.AssertedType, S: val}
}

// rangeCountKey names the ghost counter of one map iteration (a function-local pseudo global).
func rangeCountKey(fn *ssa.Function, rg *ssa.Range) string {
	n := 0
	for _, b := range fn.Blocks {
		for _, in := range b.Instrs {
			if r, ok := in.(*ssa.Range); ok {
				if _, isMap := r.X.Type().Underlying().(*types.Map); isMap {
					n++
					if r == rg {
						return heapKeyGlobal(fmt.Sprintf("$range.%s.%d", fullFuncKey(fn), n))
					}
				}
			}
		}
	}
	return heapKeyGlobal(fmt.Sprintf("$range.%s.0", fullFuncKey(fn)))
}

func isRangeCountKey(key string) bool { return strings.HasPrefix(key, "G:$range.") }

// rangeMapStable: the loop around this Next writes no map of the iterated type (and calls
// nothing with unknown effects), so the iteration visits each entry exactly once.
func (x *Exec) rangeMapStable(fr *Frame, i *ssa.Next, mt *types.Map) bool {
	var li *loopInfo
	for _, l := range fr.loops {
		if l.blocks[i.Block()] && (li == nil || len(l.blocks) < len(li.blocks)) {
			li = l
		}
	}
	if li == nil {
		return false
	}
	mods, all := x.loopTargets(fr, li)
	if all {
		return false
	}
	for _, k := range []string{heapKeyMapP(mt), heapKeyMapL(mt)} {
		if mods[k] != nil {
			return false
		}
	}
	return true
}
