package main

// Evaluation of contract expressions to SMT terms (DESIGN.md 3.4).

import (
	"fmt"
	"strconv"
	"go/constant"
	"go/token"
	"go/types"
	"math/big"
	"sort"
	"strings"

	"golang.org/x/tools/go/ssa"
)

type Env struct {
	callVars map[string]string // somecall placeholders: "$k" -> real call-log key
	allowRename bool // resolving through Exec.renames is permitted (untagged loop clauses)
	x        *Exec
	pkg      *types.Package
	names    map[string]V
	cur      *State
	old      *State
	results  []V
	contract *Contract
	frame    *Frame
	point    *ssa.BasicBlock
	depth    int
	cells    map[string]V // captured variables of a closure callee (pointers to their cells)
	trigs    *[]string    // trig(t, body) terms collected for the innermost enclosing quantifier
	oldFrom  *Env         // inside old(...): the environment old() was entered from (for non-parameter locals)
}

func (e *Env) child() *Env {
	n := *e
	n.names = map[string]V{}
	for k, v := range e.names {
		n.names[k] = v
	}
	return &n
}

func (e *Env) fail(format string, args ...any) {
	panic(contractError(fmt.Sprintf(format, args...)))
}

type contractError string

func (e *Env) bindResultNames(callee *ssa.Function, method *types.Func) {
	var sig *types.Signature
	if callee != nil {
		sig = callee.Signature
	} else if method != nil {
		sig = method.Type().(*types.Signature)
	}
	if sig == nil {
		return
	}
	for i := 0; i < sig.Results().Len() && i < len(e.results); i++ {
		if n := sig.Results().At(i).Name(); n != "" && n != "_" {
			if _, exists := e.names[n]; !exists {
				e.names[n] = e.results[i]
			}
		}
	}
}

var boolT = types.Typ[types.Bool]
var mathIntT = types.Typ[types.UntypedInt]

func (e *Env) evalBool(c CExpr) string {
	v := e.eval(c)
	if v.S == "" {
		e.fail("expression %s is not a boolean term", c)
	}
	return v.S
}

func mathV(term string) V { return V{T: mathIntT, S: term, Math: true} }

func isIntV(v V) bool {
	if v.T == nil {
		return false
	}
	_, _, ok := intInfo(v.T)
	return ok
}

func (e *Env) eval(c CExpr) V {
	x := e.x
	switch n := c.(type) {
	case *CInt:
		bi, ok := new(big.Int).SetString(strings.ReplaceAll(n.Val, "_", ""), 0)
		if !ok {
			e.fail("bad integer literal %s", n.Val)
		}
		return mathV(smtInt(bi))
	case *CStr:
		return V{T: types.Typ[types.String], S: x.s.strLit(n.Val)}
	case *CIdent:
		return e.evalIdent(n.Name)
	case *CUn:
		switch n.Op {
		case "!":
			return V{T: boolT, S: not(e.evalBool(n.X))}
		case "-":
			v := e.eval(n.X)
			if x.s.bv && !v.Math {
				return V{T: v.T, S: "(bvneg " + v.S + ")"}
			}
			return mathV("(- " + x.toMathInt(v) + ")")
		case "^":
			v := e.eval(n.X)
			if x.s.bv && !v.Math {
				return V{T: v.T, S: "(bvnot " + v.S + ")"}
			}
			bits, signed, _ := intInfo(v.T)
			if bits == 0 || signed {
				return mathV("(- (- " + v.S + ") 1)")
			}
			_, hi := intRange(bits, false)
			return mathV("(- " + hi.String() + " " + v.S + ")")
		case "*":
			v := e.eval(n.X)
			return e.deref(v)
		case "#":
			e.fail("# (iteration count) is only valid on a range-loop index")
		}
	case *CBin:
		return e.evalBin(n)
	case *CIte:
		c := e.evalBool(n.C)
		a := e.eval(n.A)
		b := e.eval(n.B)
		a, b = e.unify(a, b)
		return V{T: a.T, S: ite(c, a.S, b.S), Math: a.Math}
	case *CSel:
		return e.evalSel(n)
	case *CIndex:
		return e.evalIndex(n)
	case *CSlice:
		v := e.eval(n.X)
		lo, hi := "0", ""
		if n.Lo != nil {
			lo = x.toMathInt(e.eval(n.Lo))
		}
		if isString(v.T) {
			if n.Hi != nil {
				hi = x.toMathInt(e.eval(n.Hi))
			} else {
				hi = x.strLen(v.S)
			}
			if x.s.strSMT {
				return V{T: v.T, S: "(str.substr " + v.S + " " + lo + " (- " + hi + " " + lo + "))"}
			}
			return V{T: v.T, S: "(ssub " + v.S + " " + lo + " " + hi + ")"}
		}
		if n.Hi != nil {
			hi = x.toMathInt(e.eval(n.Hi))
		} else {
			hi = "(s_len " + v.S + ")"
		}
		return V{T: v.T, S: "(mk_slice (s_base " + v.S + ") (+ (s_off " + v.S + ") " + lo + ") (- " + hi + " " + lo + ") (- (s_cap " + v.S + ") " + lo + "))"}
	case *CCall:
		return e.evalCall(n)
	case *CQuant:
		return e.evalQuant(n)
	}
	e.fail("cannot evaluate %s", c)
	return V{}
}

func (e *Env) evalIdent(name string) V {
	x := e.x
	if v, ok := e.names[name]; ok {
		return v
	}
	if c, ok := e.cells[name]; ok {
		return x.loadPlace(e.cur, x.placeOf(c))
	}
	if name == "ret" && len(e.results) > 0 {
		// ret: the function's results, also when a parameter is called `result`
		if len(e.results) == 1 {
			return e.results[0]
		}
		return V{Tup: e.results}
	}
	switch name {
	case "true":
		return V{T: boolT, S: "true"}
	case "false":
		return V{T: boolT, S: "false"}
	case "nil":
		return V{T: types.Typ[types.UntypedNil], S: "0"}
	case "result":
		if len(e.results) == 1 {
			return e.results[0]
		}
		if len(e.results) > 1 {
			return V{Tup: e.results}
		}
		// not a postcondition: a local variable may be called `result`
		if e.frame != nil {
			if v, ok := x.lookupLocal(e.frame, name, e.point, e.cur); ok {
				return v
			}
		}
		e.fail("result used outside a postcondition")
	}
	if e.frame != nil && e.frame.fn != nil && strings.HasPrefix(name, "rangecount") {
		// ghost: entries yielded so far by the (n-th) map iteration of this function
		n := 1
		if rest := strings.TrimPrefix(name, "rangecount"); rest != "" {
			if v, err := strconv.Atoi(rest); err == nil {
				n = v
			} else {
				n = 0
			}
		}
		if n > 0 {
			key := heapKeyGlobal(fmt.Sprintf("$range.%s.%d", fullFuncKey(e.frame.fn), n))
			if _, ok := x.s.heapT[key]; ok || e.cur.heap[key] != "" {
				return V{T: types.Typ[types.Int], S: x.heapGet(e.cur, key, types.Typ[types.Int])}
			}
		}
	}
	if e.frame != nil {
		// inside old(...): a local variable (not a parameter) is not part of the entry heap -
		// also when it lives in a cell because a closure captures it; it denotes its current
		// value at the point the clause is evaluated
		if e.oldFrom != nil && e.frame.fn != nil {
			isParam := false
			for _, p := range e.frame.fn.Params {
				if p.Name() == name {
					isParam = true
				}
			}
			for _, fv := range e.frame.fn.FreeVars {
				if fv.Name() == name {
					isParam = true
				}
			}
			if !isParam {
				if v, ok := x.lookupLocal(e.frame, name, e.oldFrom.point, e.oldFrom.cur); ok {
					return v
				}
			}
		}
		if v, ok := x.lookupLocal(e.frame, name, e.point, e.cur); ok {
			return v
		}
		if e.oldFrom != nil {
			if v, ok := x.lookupLocal(e.frame, name, e.oldFrom.point, e.oldFrom.cur); ok {
				return v
			}
		}
	}
	if e.pkg != nil {
		if obj := e.pkg.Scope().Lookup(name); obj != nil {
			return e.objValue(obj)
		}
	}
	if obj := types.Universe.Lookup(name); obj != nil {
		if c, ok := obj.(*types.Const); ok {
			return e.constValue(c)
		}
	}
	// a local that a loop invariant names may have been renamed in the code: while
	// verifyFunc tries a substitution (rename tolerance, untagged loop clauses only) the old
	// name stands for the candidate
	if e.allowRename && e.frame != nil && e.x.renames != nil {
		if nn := e.x.renames[name]; nn != "" && nn != name {
			if v, ok := e.x.lookupLocal(e.frame, nn, e.point, e.cur); ok {
				return v
			}
		}
	}
	e.fail("unknown identifier %q", name)
	return V{}
}

func (e *Env) constValue(c *types.Const) V {
	x := e.x
	switch c.Val().Kind() {
	case constant.Bool:
		if constant.BoolVal(c.Val()) {
			return V{T: boolT, S: "true"}
		}
		return V{T: boolT, S: "false"}
	case constant.String:
		return V{T: c.Type(), S: x.s.strLit(constant.StringVal(c.Val()))}
	case constant.Int:
		bi, _ := new(big.Int).SetString(c.Val().ExactString(), 10)
		if _, _, ok := intInfo(c.Type()); ok && c.Type().Underlying().(*types.Basic).Info()&types.IsUntyped == 0 {
			return V{T: c.Type(), S: x.s.intLit(c.Type(), bi)}
		}
		return mathV(smtInt(bi))
	}
	e.fail("unsupported constant %s", c.Name())
	return V{}
}

func (e *Env) objValue(obj types.Object) V {
	x := e.x
	switch o := obj.(type) {
	case *types.Const:
		return e.constValue(o)
	case *types.Var:
		// package-level variable
		g := x.prog.globalFor(o)
		if g == nil {
			e.fail("no SSA global for %s", o.Name())
		}
		pv := x.value(nil2frame(), g)
		return x.loadGlobal(e.cur, pv.Pl, g)
	}
	e.fail("identifier %s does not denote a value", obj.Name())
	return V{}
}

func nil2frame() *Frame { return &Frame{vals: map[ssa.Value]V{}} }

func (e *Env) deref(v V) V {
	if v.Pl == nil {
		if _, ok := v.T.Underlying().(*types.Pointer); !ok {
			e.fail("dereference of non-pointer %v", v.T)
		}
	}
	p := e.x.placeOf(v)
	return e.loadQuiet(p)
}

// loadQuiet loads from a place in the current state without emitting
// assumptions that mention bound variables.
func (e *Env) loadQuiet(p *Place) V {
	x := e.x
	t := p.Type()
	term := x.applyPath(x.placeRootTerm(e.cur, p), p.Path)
	if x.noDefine == 0 {
		term = x.define("ld", x.s.sortOf(t), term)
		x.assume("true", x.s.typeInv(t, term))
	}
	return V{T: t, S: term}
}

func (e *Env) evalSel(n *CSel) V {
	x := e.x
	// package-qualified identifier
	if id, ok := n.X.(*CIdent); ok {
		if !e.isValueName(id.Name) {
			if pkg := e.importedPkg(id.Name); pkg != nil {
				obj := pkg.Scope().Lookup(n.Name)
				if obj == nil {
					e.fail("%s.%s not found", id.Name, n.Name)
				}
				return e.objValue(obj)
			}
		}
	}
	v := e.eval(n.X)
	if v.Tup != nil {
		// result.0
		var idx int
		if _, err := fmt.Sscanf(n.Name, "%d", &idx); err == nil && idx < len(v.Tup) {
			return v.Tup[idx]
		}
		e.fail("bad tuple selector %s", n.Name)
	}
	if v.T == nil {
		e.fail("selector %s on untyped value", n.Name)
	}
	// slice pseudo-fields
	obj, index, _ := types.LookupFieldOrMethod(v.T, true, e.pkgForLookup(v.T), n.Name)
	fld, ok := obj.(*types.Var)
	if !ok || !fld.IsField() {
		e.fail("no field %s in %s", n.Name, v.T)
	}
	cur := v
	for _, fi := range index {
		cur = e.fieldOf(cur, fi)
	}
	_ = x
	return cur
}

// isValueName: the identifier denotes a value (bound name, local, parameter or
// package-level object) rather than an imported package.
func (e *Env) isValueName(name string) bool {
	if _, ok := e.names[name]; ok {
		return true
	}
	if e.frame != nil && e.frame.fn != nil {
		for _, p := range e.frame.fn.Params {
			if p.Name() == name {
				return true
			}
		}
		for _, fv := range e.frame.fn.FreeVars {
			if fv.Name() == name {
				return true
			}
		}
		// source-level locals
		for _, b := range e.frame.fn.Blocks {
			for _, in := range b.Instrs {
				switch i := in.(type) {
				case *ssa.Phi:
					if i.Comment == name {
						return true
					}
				case *ssa.Alloc:
					if i.Comment == name {
						return true
					}
				case *ssa.DebugRef:
					if o := i.Object(); o != nil && o.Name() == name {
						if _, isPkg := o.(*types.PkgName); !isPkg {
							return true
						}
					}
				}
			}
		}
	}
	if e.pkg != nil && e.pkg.Scope().Lookup(name) != nil {
		return true
	}
	return false
}

func (e *Env) pkgForLookup(t types.Type) *types.Package {
	if p, ok := t.(*types.Pointer); ok {
		t = p.Elem()
	}
	if n, ok := t.(*types.Named); ok && n.Obj().Pkg() != nil {
		return n.Obj().Pkg()
	}
	return e.pkg
}

func (e *Env) fieldOf(v V, fi int) V {
	x := e.x
	if _, isPtr := v.T.Underlying().(*types.Pointer); isPtr || v.Pl != nil {
		base := x.placeOf(v)
		st := base.Type().Underlying().(*types.Struct)
		ft := st.Field(fi).Type()
		pl := base.extend(PathSel{Field: fi, T: ft, From: base.Type()})
		return e.loadQuiet(pl)
	}
	st, ok := v.T.Underlying().(*types.Struct)
	if !ok {
		e.fail("field access on non-struct %s", v.T)
	}
	ft := st.Field(fi).Type()
	return V{T: ft, S: "(" + x.s.accessor(v.T, fi) + " " + v.S + ")"}
}

func (e *Env) importedPkg(name string) *types.Package {
	if e.pkg == nil {
		// contracts declared for a package outside /repo (`package io`): names resolve
		// against the loaded packages
		return e.x.prog.pkgByName(name)
	}
	if e.pkg.Scope().Lookup(name) != nil {
		return nil
	}
	for _, imp := range e.pkg.Imports() {
		if imp.Name() == name {
			return imp
		}
	}
	// import aliases used by the package's own source files
	if pk := e.x.prog.all[e.pkg.Path()]; pk != nil {
		for _, f := range pk.Syntax {
			for _, is := range f.Imports {
				if is.Name != nil && is.Name.Name == name {
					path := strings.Trim(is.Path.Value, "\"")
					if tp := e.x.prog.typesPkg(path); tp != nil {
						return tp
					}
				}
			}
		}
	}
	// any loaded package with that name
	return e.x.prog.pkgByName(name)
}

func (e *Env) evalIndex(n *CIndex) V {
	x := e.x
	v := e.eval(n.X)
	if v.T == nil {
		e.fail("index on untyped value")
	}
	switch u := v.T.Underlying().(type) {
	case *types.Slice:
		idx := x.toMathInt(e.eval(n.I))
		et := u.Elem()
		sarr := x.heapGet(e.cur, heapKeySlice(et), et)
		suffix := " (s_off " + v.S + "))"
		if strings.HasPrefix(idx, "(- q_") && strings.HasSuffix(idx, suffix) && !strings.Contains(idx[3:len(idx)-len(suffix)], " ") {
			// absolute-index quantifier variable (see evalQuant)
			return V{T: et, S: "(select (select " + sarr + " (s_base " + v.S + ")) " + idx[3:len(idx)-len(suffix)] + ")"}
		}
		return V{T: et, S: "(select (select " + sarr + " (s_base " + v.S + ")) (+ (s_off " + v.S + ") " + idx + "))"}
	case *types.Array:
		idx := x.toMathInt(e.eval(n.I))
		return V{T: u.Elem(), S: "(select " + v.S + " " + idx + ")"}
	case *types.Map:
		k := e.eval(n.I)
		k = e.coerce(k, u.Key())
		return V{T: u.Elem(), S: ite(x.mapPresent(e.cur, v, k.S), x.mapValue(e.cur, v, k.S), x.s.zero(u.Elem()))}
	case *types.Basic:
		if isString(v.T) {
			idx := x.toMathInt(e.eval(n.I))
			if x.s.strSMT {
				x.s.strBytes = true
				return V{T: types.Typ[types.Uint8], S: "(str.to_code (str.at " + v.S + " " + idx + "))"}
			}
			return V{T: types.Typ[types.Uint8], S: "(sat " + v.S + " " + idx + ")"}
		}
	case *types.Pointer:
		if arr, ok := u.Elem().Underlying().(*types.Array); ok {
			idx := x.toMathInt(e.eval(n.I))
			a := e.deref(v)
			return V{T: arr.Elem(), S: "(select " + a.S + " " + idx + ")"}
		}
	}
	e.fail("cannot index %s", v.T)
	return V{}
}

// coerce adapts a mathematical/untyped value to Go type t (bv mode literal widths).
func (e *Env) coerce(v V, t types.Type) V {
	x := e.x
	if v.T != nil && v.T == types.Typ[types.UntypedNil] {
		return V{T: t, S: x.s.zero(t)}
	}
	if v.Math && x.s.bv {
		if _, _, ok := intInfo(t); ok {
			return V{T: t, S: x.fromMathInt(t, v.S)}
		}
	}
	if v.Math {
		return V{T: t, S: v.S, Math: true}
	}
	return v
}

func (e *Env) unify(a, b V) (V, V) {
	if a.Math && !b.Math && b.T != nil {
		if e.x.s.bv {
			return e.coerce(a, b.T), b
		}
		return a, b
	}
	if b.Math && !a.Math && a.T != nil {
		if e.x.s.bv {
			return a, e.coerce(b, a.T)
		}
		return a, b
	}
	if a.T != nil && a.T == types.Typ[types.UntypedNil] && b.T != nil {
		return V{T: b.T, S: e.x.s.zero(b.T)}, b
	}
	if b.T != nil && b.T == types.Typ[types.UntypedNil] && a.T != nil {
		return a, V{T: a.T, S: e.x.s.zero(a.T)}
	}
	return a, b
}

func (e *Env) evalBin(n *CBin) V {
	x := e.x
	switch n.Op {
	case "&&":
		// short circuit: `called("f#k") && retof("f#k")...` when the call was never executed
		// before this point is false, not a malformed clause
		l := e.evalBool(n.L)
		if l == "false" {
			return V{T: boolT, S: "false"}
		}
		return V{T: boolT, S: and(l, e.evalBool(n.R))}
	case "||":
		return V{T: boolT, S: or(e.evalBool(n.L), e.evalBool(n.R))}
	case "==>":
		return V{T: boolT, S: implies(e.evalBool(n.L), e.evalBool(n.R))}
	case "<==>":
		return V{T: boolT, S: "(= " + e.evalBool(n.L) + " " + e.evalBool(n.R) + ")"}
	case "in":
		k := e.eval(n.L)
		m := e.eval(n.R)
		mt, ok := m.T.Underlying().(*types.Map)
		if !ok {
			e.fail("'in' needs a map on the right")
		}
		k = e.coerce(k, mt.Key())
		return V{T: boolT, S: and("(not (= "+m.S+" 0))", x.mapPresent(e.cur, m, k.S))}
	}
	a := e.eval(n.L)
	b := e.eval(n.R)
	a, b = e.unify(a, b)
	switch n.Op {
	case "==", "!=":
		var eq string
		if a.T != nil && isSliceT(a.T) {
			// nil comparison or header equality
			if b.S == "(mk_slice 0 0 0 0)" {
				eq = "(= (s_base " + a.S + ") 0)"
			} else {
				eq = "(= " + a.S + " " + b.S + ")"
			}
		} else if a.Pl != nil || b.Pl != nil {
			eq = x.eqVals(e.cur, a, b)
		} else {
			eq = "(= " + a.S + " " + b.S + ")"
		}
		if n.Op == "!=" {
			eq = not(eq)
		}
		return V{T: boolT, S: eq}
	case "<", "<=", ">", ">=":
		if a.T != nil && isString(a.T) {
			switch n.Op {
			case "<":
				return V{T: boolT, S: x.strLt(a.S, b.S)}
			case ">":
				return V{T: boolT, S: x.strLt(b.S, a.S)}
			case "<=":
				return V{T: boolT, S: not(x.strLt(b.S, a.S))}
			default:
				return V{T: boolT, S: not(x.strLt(a.S, b.S))}
			}
		}
		if x.s.bv && !a.Math && !b.Math {
			_, signed, _ := intInfo(a.T)
			op := map[string][2]string{"<": {"bvult", "bvslt"}, "<=": {"bvule", "bvsle"}, ">": {"bvugt", "bvsgt"}, ">=": {"bvuge", "bvsge"}}[n.Op]
			o := op[0]
			if signed {
				o = op[1]
			}
			return V{T: boolT, S: "(" + o + " " + a.S + " " + b.S + ")"}
		}
		return V{T: boolT, S: "(" + n.Op + " " + x.toMathInt(a) + " " + x.toMathInt(b) + ")"}
	}
	// arithmetic
	if a.T != nil && isString(a.T) && n.Op == "+" {
		return V{T: a.T, S: x.strConcat(a.S, b.S)}
	}
	if x.s.bv && !a.Math && !b.Math {
		_, signed, _ := intInfo(a.T)
		var op string
		switch n.Op {
		case "+":
			op = "bvadd"
		case "-":
			op = "bvsub"
		case "*":
			op = "bvmul"
		case "/":
			op = "bvudiv"
			if signed {
				op = "bvsdiv"
			}
		case "%":
			op = "bvurem"
			if signed {
				op = "bvsrem"
			}
		case "&":
			op = "bvand"
		case "|":
			op = "bvor"
		case "^":
			op = "bvxor"
		case "<<":
			op = "bvshl"
		case ">>":
			op = "bvlshr"
			if signed {
				op = "bvashr"
			}
		case "&^":
			return V{T: a.T, S: "(bvand " + a.S + " (bvnot " + b.S + "))"}
		}
		return V{T: a.T, S: "(" + op + " " + a.S + " " + b.S + ")"}
	}
	am, bm := x.toMathInt(a), x.toMathInt(b)
	switch n.Op {
	case "+":
		return mathV("(+ " + am + " " + bm + ")")
	case "-":
		return mathV("(- " + am + " " + bm + ")")
	case "*":
		return mathV("(* " + am + " " + bm + ")")
	case "/":
		return mathV("(div " + am + " " + bm + ")")
	case "%":
		return mathV("(mod " + am + " " + bm + ")")
	case "<<":
		if k, ok := constIntTerm(bm); ok && k.IsInt64() && k.Int64() < 1024 {
			return mathV("(* " + am + " " + pow2(int(k.Int64())).String() + ")")
		}
	case ">>":
		if k, ok := constIntTerm(bm); ok && k.IsInt64() && k.Int64() < 1024 {
			return mathV("(div " + am + " " + pow2(int(k.Int64())).String() + ")")
		}
	case "&":
		if k, ok := constIntTerm(bm); ok {
			kk := new(big.Int).Add(k, big.NewInt(1))
			if kk.Sign() > 0 && new(big.Int).And(kk, k).Sign() == 0 {
				return mathV("(mod " + am + " " + kk.String() + ")")
			}
		}
	}
	// bit operations on machine integers: same translation as the code's own operators
	if tok, ok := map[string]token.Token{"&": token.AND, "|": token.OR, "^": token.XOR, "&^": token.AND_NOT, "<<": token.SHL, ">>": token.SHR}[n.Op]; ok {
		ta, tb := a.T, b.T
		if a.Math && !b.Math {
			ta = tb
		}
		if b.Math && !a.Math {
			tb = ta
		}
		if _, _, okA := intInfo(ta); okA && ta != mathIntT {
			if _, _, okB := intInfo(tb); okB && tb != mathIntT {
				r := x.binop(nil2frame(), e.cur, tok, V{T: ta, S: am}, V{T: tb, S: bm}, ta, 0)
				return r
			}
		}
	}
	e.fail("operator %s not supported on these operands in int mode (%s)", n.Op, n)
	return V{}
}

func isSliceT(t types.Type) bool {
	_, ok := t.Underlying().(*types.Slice)
	return ok
}

func (e *Env) evalQuant(n *CQuant) V {
	binders, rng, body, pattern := e.evalQuantParts(n)
	if n.Forall {
		if pattern != "" {
			return V{T: boolT, S: "(forall (" + binders + ") (! " + implies(rng, body) + pattern + "))"}
		}
		return V{T: boolT, S: "(forall (" + binders + ") " + implies(rng, body) + ")"}
	}
	return V{T: boolT, S: "(exists (" + binders + ") " + and(rng, body) + ")"}
}

// evalQuantParts evaluates a quantifier to its binder list, range condition, body and
// optional pattern annotation. Directly nested typed foralls are flattened into one
// quantifier (so that one trigger can mention all bound variables).
func (e *Env) evalQuantParts(n *CQuant) (string, string, string, string) {
	x := e.x
	ce := e.child()
	bound := "q_" + sanitize(n.Var)
	x.noDefine++
	defer func() { x.noDefine-- }()
	var sortName string
	var rng string
	pattern := ""
	if n.Lo != nil {
		sortName = "Int"
		lo := x.toMathInt(e.eval(n.Lo))
		hi := x.toMathInt(e.eval(n.Hi))
		// When the bound variable indexes exactly one slice expression, quantify over the
		// absolute index into the backing array: the trigger (select (select S base) j)
		// then contains no arithmetic and E-matching works.
		if xs, single := indexedSlices(n.Body, n.Var); xs != nil && (single || n.Forall) {
			sv := func() (v V) {
				defer func() {
					if r := recover(); r != nil {
						if _, ok := r.(contractError); !ok {
							panic(r)
						}
						v = V{}
					}
				}()
				return e.eval(xs)
			}()
			if sv.T != nil && isSliceT(sv.T) && sv.S != "" {
				off := "(s_off " + sv.S + ")"
				ce.names[n.Var] = mathV("(- " + bound + " " + off + ")")
				rng = "(and (<= (+ " + off + " " + lo + ") " + bound + ") (< " + bound + " (+ " + off + " " + hi + ")))"
				if !single {
					// several slices are indexed by the bound variable (typically s[k] == old(s[k])):
					// the first current-state one is the pivot and carries the trigger
					et := sv.T.Underlying().(*types.Slice).Elem()
					sarr := x.heapGet(e.cur, heapKeySlice(et), et)
					pattern = " :pattern ((select (select " + sarr + " (s_base " + sv.S + ")) " + bound + "))"
				}
			}
		}
		if rng == "" {
			ce.names[n.Var] = mathV(bound)
			rng = "(and (<= " + lo + " " + bound + ") (< " + bound + " " + hi + "))"
		}
	} else {
		var t types.Type
		if strings.HasPrefix(n.Typ, "keyof(") && strings.HasSuffix(n.Typ, ")") {
			// forall k keyof(m): the key type of the map expression m (needed when the key
			// type is declared inside a function and has no package-level name)
			me, err := parseCExpr(n.Typ[len("keyof(") : len(n.Typ)-1])
			if err != nil {
				e.fail("bad keyof(): %v", err)
			}
			mv := e.eval(me)
			mt, ok := mv.T.Underlying().(*types.Map)
			if !ok {
				e.fail("keyof() needs a map")
			}
			t = mt.Key()
		} else {
			t = e.resolveType(n.Typ)
		}
		sortName = x.s.sortOf(t)
		ce.names[n.Var] = V{T: t, S: bound}
		rng = x.s.typeInv(t, bound)
	}
	binders := "(" + bound + " " + sortName + ")"
	if inner, ok := n.Body.(*CQuant); ok && n.Forall && inner.Forall && n.Lo == nil && inner.Var != n.Var {
		ib, irng, ibody, ipat := ce.evalQuantParts(inner)
		return binders + " " + ib, and(rng, irng), ibody, ipat
	}
	var trigs []string
	ce.trigs = &trigs
	body := ce.evalBool(n.Body)
	if len(trigs) > 0 && n.Forall {
		pattern = " :pattern (" + strings.Join(trigs, " ") + ")"
	}
	return binders, rng, body, pattern
}

func (e *Env) resolveType(name string) types.Type {
	name = strings.TrimSpace(name)
	if strings.HasPrefix(name, "*") {
		return types.NewPointer(e.resolveType(name[1:]))
	}
	if strings.HasPrefix(name, "[]") {
		return types.NewSlice(e.resolveType(name[2:]))
	}
	if strings.HasPrefix(name, "map[") {
		depth := 0
		for i := 3; i < len(name); i++ {
			switch name[i] {
			case '[':
				depth++
			case ']':
				depth--
				if depth == 0 {
					return types.NewMap(e.resolveType(name[4:i]), e.resolveType(name[i+1:]))
				}
			}
		}
		e.fail("malformed map type %q", name)
	}
	if i := strings.Index(name, "."); i > 0 {
		pkg := e.importedPkg(name[:i])
		if pkg == nil {
			e.fail("unknown package in type %s", name)
		}
		obj := pkg.Scope().Lookup(name[i+1:])
		if tn, ok := obj.(*types.TypeName); ok {
			return tn.Type()
		}
		e.fail("unknown type %s", name)
	}
	if e.pkg != nil {
		if tn, ok := e.pkg.Scope().Lookup(name).(*types.TypeName); ok {
			return tn.Type()
		}
	}
	if tn, ok := types.Universe.Lookup(name).(*types.TypeName); ok {
		return tn.Type()
	}
	e.fail("unknown type %q", name)
	return nil
}

func (e *Env) tryType(c CExpr) (types.Type, bool) {
	var name string
	switch n := c.(type) {
	case *CIdent:
		name = n.Name
		if _, shadow := e.names[name]; shadow {
			return nil, false
		}
	case *CSel:
		id, ok := n.X.(*CIdent)
		if !ok {
			return nil, false
		}
		if e.isValueName(id.Name) {
			return nil, false
		}
		name = id.Name + "." + n.Name
	default:
		return nil, false
	}
	var t types.Type
	func() {
		defer func() {
			if r := recover(); r != nil {
				if _, ok := r.(contractError); !ok {
					panic(r)
				}
			}
		}()
		t = e.resolveType(name)
	}()
	return t, t != nil
}

func (e *Env) evalCall(n *CCall) V {
	x := e.x
	if id, ok := n.Fun.(*CIdent); ok {
		switch id.Name {
		case "old":
			oe := *e
			oe.cur = e.old
			oe.frame = nil
			if e.frame != nil {
				oe.frame = e.frame
				oe.point = nil
				if e.point != nil && e.oldFrom == nil {
					oe.oldFrom = e
				}
			}
			return (&oe).eval(n.Args[0])
		case "len":
			v := e.eval(n.Args[0])
			switch v.T.Underlying().(type) {
			case *types.Slice:
				return mathV("(s_len " + v.S + ")")
			case *types.Map:
				return mathV(x.mapLen(e.cur, v))
			case *types.Array:
				return mathV(fmt.Sprint(v.T.Underlying().(*types.Array).Len()))
			}
			if isString(v.T) {
				return mathV(x.strLen(v.S))
			}
			e.fail("len of %s", v.T)
		case "cap":
			v := e.eval(n.Args[0])
			return mathV("(s_cap " + v.S + ")")
		case "zero":
			t, ok := e.tryType(n.Args[0])
			if !ok {
				e.fail("zero() needs a type")
			}
			return V{T: t, S: x.s.zero(t)}
		case "int", "math":
			v := e.eval(n.Args[0])
			return mathV(x.toMathInt(v))
		case "shares":
			// shares(a, b): two slices have the same (non-nil) backing array
			a := e.eval(n.Args[0])
			b := e.eval(n.Args[1])
			if !isSliceT(a.T) || !isSliceT(b.T) {
				e.fail("shares() needs two slices")
			}
			return V{T: boolT, S: "(and (not (= (s_base " + a.S + ") 0)) (= (s_base " + a.S + ") (s_base " + b.S + ")))"}
		case "sameStart":
			// sameStart(a, b): two slices start at the same element of the same backing array
			a := e.eval(n.Args[0])
			b := e.eval(n.Args[1])
			if !isSliceT(a.T) || !isSliceT(b.T) {
				e.fail("sameStart() needs two slices")
			}
			return V{T: boolT, S: "(and (= (s_base " + a.S + ") (s_base " + b.S + ")) (= (s_off " + a.S + ") (s_off " + b.S + ")))"}
		case "sameArray":
			// sameArray(a, b): two slices have the same backing array (possibly both nil)
			a := e.eval(n.Args[0])
			b := e.eval(n.Args[1])
			if !isSliceT(a.T) || !isSliceT(b.T) {
				e.fail("sameArray() needs two slices")
			}
			return V{T: boolT, S: "(= (s_base " + a.S + ") (s_base " + b.S + "))"}
		case "allocated":
			// allocated(x): x was allocated at or before the current state
			v := e.eval(n.Args[0])
			if isSliceT(v.T) {
				return V{T: boolT, S: "(<= (s_base " + v.S + ") " + e.cur.alloc + ")"}
			}
			if pt, ok := x.ptrTerm(v); ok {
				return V{T: boolT, S: "(<= " + pt + " " + e.cur.alloc + ")"}
			}
			e.fail("allocated() needs a slice, pointer or map")
		case "hasType":
			// hasType(x, T): the dynamic type of interface value x is the concrete type T
			v := e.eval(n.Args[0])
			t, ok := e.tryType(n.Args[1])
			if !ok {
				e.fail("hasType() needs a type as its second argument")
			}
			x.boxFuncs(t)
			return V{T: boolT, S: fmt.Sprintf("(= (itag %s) %d)", v.S, x.typeID(t))}
		case "holdsPtr":
			// holdsPtr(x, T): the interface value x holds a non-nil *T
			v := e.eval(n.Args[0])
			t, ok := e.tryType(n.Args[1])
			if !ok {
				e.fail("holdsPtr() needs a type as its second argument")
			}
			pt := types.NewPointer(t)
			_, unbox := x.boxFuncs(pt)
			return V{T: boolT, S: fmt.Sprintf("(and (= (itag %s) %d) (not (= (%s %s) 0)))", v.S, x.typeID(pt), unbox, v.S)}
		case "ptrIn":
			// ptrIn(x, T): the *T held by the interface value x (meaningful under holdsPtr(x, T))
			v := e.eval(n.Args[0])
			t, ok := e.tryType(n.Args[1])
			if !ok {
				e.fail("ptrIn() needs a type as its second argument")
			}
			pt := types.NewPointer(t)
			_, unbox := x.boxFuncs(pt)
			return V{T: pt, S: "(" + unbox + " " + v.S + ")"}
		case "heapUnchanged":
			// heapUnchanged(): every object that existed in the old state has the same
			// contents now (maps, slices' backing arrays, structs, globals)
			if e.cur.base != e.old.base {
				return V{T: boolT, S: "false"}
			}
			var conj []string
			var keys []string
			for k := range e.cur.heap {
				keys = append(keys, k)
			}
			sort.Strings(keys)
			for _, k := range keys {
				t := x.s.heapT[k]
				o := x.heapGet(e.cur, k, t)
				en := x.heapGet(e.old, k, t)
				if o == en {
					continue
				}
				if strings.HasPrefix(k, "G:") {
					conj = append(conj, "(= "+o+" "+en+")")
				} else {
					conj = append(conj, fmt.Sprintf("(forall ((fr! Int)) (! (=> (and (>= fr! 1) (<= fr! %s)) (= (select %s fr!) (select %s fr!))) :pattern ((select %s fr!))))", e.old.alloc, o, en, o))
				}
			}
			return V{T: boolT, S: and(conj...)}
		case "mk":
			// mk(T, f1, ..., fn): the struct value of type T with these field values (positional)
			t, ok := e.tryType(n.Args[0])
			if !ok {
				e.fail("mk() needs a struct type as its first argument")
			}
			stT, ok := t.Underlying().(*types.Struct)
			if !ok || stT.NumFields() != len(n.Args)-1 {
				e.fail("mk(%s, ...) needs exactly one value per field", n.Args[0])
			}
			var fields []string
			for i := 0; i < stT.NumFields(); i++ {
				fv := e.coerce(e.eval(n.Args[i+1]), stT.Field(i).Type())
				fields = append(fields, fv.S)
			}
			return V{T: t, S: x.s.mkStruct(t, fields)}
		case "trig":
			// trig(t, body): body, with t as the trigger of the innermost enclosing forall
			if len(n.Args) != 2 {
				e.fail("trig takes a trigger term and a body")
			}
			if e.trigs == nil {
				e.fail("trig outside a quantifier")
			}
			tv := e.eval(n.Args[0])
			*e.trigs = append(*e.trigs, tv.S)
			return e.eval(n.Args[1])
		case "crc32ieee":
			// crc32ieee(s): crc32.ChecksumIEEE([]byte(s)) - the same function the model of the
			// library call uses (lib.go)
			sv := e.eval(n.Args[0])
			x.s.declareUF("crc32_str", "("+x.s.strSort()+")", "Int")
			r := x.define("crc", "Int", "(crc32_str "+sv.S+")")
			x.s.onceAssert("(forall ((s " + x.s.strSort() + ")) (! (and (<= 0 (crc32_str s)) (<= (crc32_str s) 4294967295)) :pattern ((crc32_str s))))")
			return V{T: types.Typ[types.Uint32], S: r}
		case "errIs":
			a := e.eval(n.Args[0])
			b := e.eval(n.Args[1])
			return V{T: boolT, S: x.errIsTerm(a.S, b.S)}
		case "somecall":
			// somecall("k", "callee", body): some call of callee executed before this point
			// satisfies body, in which "$k" stands for that call's key (called/argof/retof).
			// Independent of how many call sites the callee has and of their order.
			if len(n.Args) != 3 {
				e.fail("somecall needs (placeholder, callee, body)")
			}
			kv, ok1 := n.Args[0].(*CStr)
			cn, ok2 := n.Args[1].(*CStr)
			if !ok1 || !ok2 {
				e.fail("somecall needs string literals for the placeholder and the callee")
			}
			if e.frame == nil {
				panic(contractError("call-log: clause refers to the callee's own call log"))
			}
			var keys []string
			for k := range e.frame.callLog {
				if strings.HasPrefix(k, cn.Val+"#") {
					keys = append(keys, k)
				}
			}
			sort.Strings(keys)
			var alts []string
			for _, k := range keys {
				ce := e.child()
				ce.callVars = map[string]string{}
				for a, b := range e.callVars {
					ce.callVars[a] = b
				}
				ce.callVars[kv.Val] = k
				body := ce.evalBool(n.Args[2])
				alts = append(alts, and(e.frame.callLog[k].guard, body))
			}
			if len(alts) == 0 {
				return V{T: boolT, S: "false"}
			}
			if len(alts) == 1 {
				return V{T: boolT, S: alts[0]}
			}
			return V{T: boolT, S: "(or " + strings.Join(alts, " ") + ")"}
		case "called", "retof", "argof", "seqof":
			// ghost call log of the enclosing function: called("f#k") is the condition under
			// which the k-th call of f was executed; retof / argof give its result and
			// arguments; seqof its position in execution order
			ks, ok := n.Args[0].(*CStr)
			if e.frame == nil {
				// at a call site the callee's call log does not exist: such clauses are internal
				// to the callee's own verification and are skipped by callContract
				panic(contractError("call-log: clause refers to the callee's own call log"))
			}
			if !ok {
				e.fail("%s needs a string key \"callee#k\"", id.Name)
			}
			key := ks.Val
			if strings.HasPrefix(key, "$") {
				real, bound := e.callVars[key[1:]]
				if !bound {
					e.fail("%s: placeholder %s is not bound by an enclosing somecall", id.Name, key)
				}
				key = real
			}
			if !strings.Contains(key, "#") {
				key += "#1"
			}
			rec := e.frame.callLog[key]
			if rec == nil {
				if id.Name == "called" {
					return V{T: boolT, S: "false"}
				}
				e.fail("%s: no call %s was executed before this point (calls so far: %s)", id.Name, key, strings.Join(sortedKeys(e.frame.callLog), ", "))
			}
			switch id.Name {
			case "called":
				return V{T: boolT, S: rec.guard}
			case "seqof":
				return mathV(fmt.Sprint(rec.seq))
			case "retof":
				if rec.res.Tup != nil {
					return V{Tup: rec.res.Tup}
				}
				return rec.res
			default:
				ci, ok := n.Args[1].(*CInt)
				if !ok {
					e.fail("argof needs a literal argument index")
				}
				var idx int
				fmt.Sscanf(ci.Val, "%d", &idx)
				if idx >= len(rec.args) {
					e.fail("argof: call %s has %d arguments", key, len(rec.args))
				}
				return rec.args[idx]
			}
		case "fresh":
			// fresh(x): x was allocated after the function's entry state
			v := e.eval(n.Args[0])
			if isSliceT(v.T) {
				return V{T: boolT, S: "(> (s_base " + v.S + ") " + e.old.alloc + ")"}
			}
			if pt, ok := x.ptrTerm(v); ok {
				return V{T: boolT, S: "(> " + pt + " " + e.old.alloc + ")"}
			}
			e.fail("fresh() needs a slice, pointer or map")
		case "isnil":
			v := e.eval(n.Args[0])
			if isSliceT(v.T) {
				return V{T: boolT, S: "(= (s_base " + v.S + ") 0)"}
			}
			if pt, ok := x.ptrTerm(v); ok {
				return V{T: boolT, S: "(= " + pt + " 0)"}
			}
			return V{T: boolT, S: "false"}
		case "sliceEq":
			// sliceEq(a, b): same length and contents
			a := e.eval(n.Args[0])
			b := e.eval(n.Args[1])
			return V{T: boolT, S: x.sliceEqTerm(e.cur, a, e.cur, b)}
		case "unchanged":
			// unchanged(s): slice contents equal in old and current state (same header)
			oe := *e
			oe.cur = e.old
			a := (&oe).eval(n.Args[0])
			b := e.eval(n.Args[0])
			if isSliceT(a.T) {
				return V{T: boolT, S: x.sliceEqTerm(e.old, a, e.cur, b)}
			}
			return V{T: boolT, S: "(= " + a.S + " " + b.S + ")"}
		case "ite":
			// ite(c, a, b): conditional value
			if len(n.Args) != 3 {
				e.fail("ite takes three arguments")
			}
			c := e.evalBool(n.Args[0])
			a := e.eval(n.Args[1])
			b := e.eval(n.Args[2])
			a, b = e.unify(a, b)
			r := V{T: a.T, S: ite(c, a.S, b.S), Math: a.Math}
			if r.T != nil && !r.Math && a.Tup == nil {
				if _, untyped := r.T.(*types.Basic); !untyped || r.T.(*types.Basic).Info()&types.IsUntyped == 0 {
					r.S = x.define("ite", x.s.sortOf(r.T), r.S)
				}
			}
			return r
		case "min", "max":
			a := e.eval(n.Args[0])
			for _, arg := range n.Args[1:] {
				b := e.eval(arg)
				am, bm := x.toMathInt(a), x.toMathInt(b)
				if id.Name == "min" {
					a = mathV(ite("(< "+bm+" "+am+")", bm, am))
				} else {
					a = mathV(ite("(> "+bm+" "+am+")", bm, am))
				}
			}
			return a
		}
		// spec function
		if e.pkg != nil {
			if sf := x.cs.Specs[e.pkg.Path()+"."+id.Name]; sf != nil {
				return e.callSpec(sf, n.Args)
			}
		}
		// type conversion
		if t, ok := e.tryType(n.Fun); ok && len(n.Args) == 1 {
			return e.convertTo(e.eval(n.Args[0]), t)
		}
		// Go function of the package (pure use)
		if e.pkg != nil {
			if fobj, ok := e.pkg.Scope().Lookup(id.Name).(*types.Func); ok {
				return e.callGo(x.prog.funcFor(fobj), nil, n.Args)
			}
		}
		e.fail("unknown function %s", id.Name)
	}
	if sel, ok := n.Fun.(*CSel); ok {
		// pkg.Func(...), pkg.Type(...), value.Method(...)
		if id, ok := sel.X.(*CIdent); ok {
			if !e.isValueName(id.Name) {
				if pkg := e.importedPkg(id.Name); pkg != nil {
					if sf := x.cs.Specs[pkg.Path()+"."+sel.Name]; sf != nil {
						return e.callSpec(sf, n.Args)
					}
					switch obj := pkg.Scope().Lookup(sel.Name).(type) {
					case *types.Func:
						return e.callGo(x.prog.funcFor(obj), nil, n.Args)
					case *types.TypeName:
						return e.convertTo(e.eval(n.Args[0]), obj.Type())
					}
					e.fail("%s.%s is not callable", id.Name, sel.Name)
				}
			}
		}
		recv := e.eval(sel.X)
		obj, _, _ := types.LookupFieldOrMethod(recv.T, true, e.pkgForLookup(recv.T), sel.Name)
		m, ok := obj.(*types.Func)
		if !ok {
			e.fail("no method %s on %s", sel.Name, recv.T)
		}
		fn := x.prog.funcFor(m)
		if fn == nil {
			e.fail("no SSA function for method %s", sel.Name)
		}
		// adapt receiver: value vs pointer
		want := fn.Signature.Recv().Type()
		_, wantPtr := want.Underlying().(*types.Pointer)
		_, havePtr := recv.T.Underlying().(*types.Pointer)
		if havePtr && !wantPtr {
			recv = e.deref(recv)
		} else if !havePtr && wantPtr {
			e.fail("method %s needs an addressable receiver", sel.Name)
		}
		return e.callGo(fn, &recv, n.Args)
	}
	e.fail("unsupported call %s", n)
	return V{}
}

func (e *Env) convertTo(v V, t types.Type) V {
	x := e.x
	if _, _, ok := intInfo(t); ok {
		if v.Math {
			if x.s.bv {
				return V{T: t, S: x.fromMathInt(t, v.S)}
			}
			return V{T: t, S: x.wrap(t, v.S)}
		}
		return x.convert(nil2frame(), e.cur, v, t, 0)
	}
	if v.T != nil {
		// string(b) and []byte(s) in a clause mean what they mean in the code
		_, fromSlice := v.T.Underlying().(*types.Slice)
		_, toSlice := t.Underlying().(*types.Slice)
		if (fromSlice && isString(t)) || (isString(v.T) && toSlice) {
			return x.convert(nil2frame(), e.cur, v, t, 0)
		}
	}
	return x.convertStructural(v, t)
}

func (e *Env) callSpec(sf *SpecFunc, args []CExpr) V {
	if e.depth > 40 {
		e.fail("spec function recursion too deep (%s)", sf.Name)
	}
	if len(args) != len(sf.Params) {
		e.fail("spec %s expects %d arguments", sf.Name, len(sf.Params))
	}
	ne := &Env{x: e.x, pkg: e.x.prog.typesPkg(sf.Pkg), names: map[string]V{}, cur: e.cur, old: e.old, depth: e.depth + 1, results: nil}
	for i, p := range sf.Params {
		v := e.eval(args[i])
		if p.Typ != "int" && p.Typ != "math" {
			t := ne.resolveType(p.Typ)
			v = e.coerce(v, t)
			if v.T == nil || v.Math {
				v.T = t
			}
		}
		ne.names[p.Name] = v
	}
	if sf.Body == nil {
		// uninterpreted: one SMT function per spec, typed from the declared signature
		var sorts, terms []string
		for _, p := range sf.Params {
			v := ne.names[p.Name]
			if p.Typ == "int" || p.Typ == "math" {
				sorts = append(sorts, "Int")
			} else {
				sorts = append(sorts, e.x.s.sortOf(v.T))
			}
			terms = append(terms, e.x.define("ga", sorts[len(sorts)-1], v.S))
		}
		name := "ghost_" + sanitize(sf.Pkg) + "_" + sf.Name
		defer e.emitAxioms(sf)
		if sf.Ret == "int" || sf.Ret == "math" {
			e.x.s.declareUF(name, "("+strings.Join(sorts, " ")+")", "Int")
			return V{Math: true, S: "(" + name + " " + strings.Join(terms, " ") + ")"}
		}
		rt := ne.resolveType(sf.Ret)
		e.x.s.declareUF(name, "("+strings.Join(sorts, " ")+")", e.x.s.sortOf(rt))
		term := "(" + name + " " + strings.Join(terms, " ") + ")"
		if len(terms) == 0 {
			term = name
		}
		term = e.x.define("gh", e.x.s.sortOf(rt), term)
		if inv := e.x.s.typeInv(rt, term); inv != "" && inv != "true" {
			e.x.assume("true", inv)
		}
		return V{T: rt, S: term}
	}
	return ne.eval(sf.Body)
}

// emitAxioms asserts (once per script, in the prelude) every axiom of sf's package
// that mentions sf. Axioms are closed formulas evaluated in the entry state.
func (e *Env) emitAxioms(sf *SpecFunc) {
	x := e.x
	for _, ax := range x.cs.Axioms[sf.Pkg] {
		if !strings.Contains(ax.Src, sf.Name+"(") {
			continue
		}
		key := "axiom:" + ax.Pkg + "." + ax.Name
		if x.s.uf[key] {
			continue
		}
		x.s.uf[key] = true
		ne := &Env{x: x, pkg: x.prog.typesPkg(ax.Pkg), names: map[string]V{}, cur: e.old, old: e.old, depth: e.depth + 1}
		if ne.cur == nil {
			ne.cur, ne.old = e.cur, e.cur
		}
		x.noDefine++
		term := ne.evalBool(ax.E)
		x.noDefine--
		x.s.onceAssert(term)
		x.trust("definitional axiom " + ax.Name + " (" + shortPkg(ax.Pkg) + "): " + ax.Src)
	}
}

func shortPkg(p string) string {
	if i := strings.LastIndex(p, "/"); i >= 0 {
		return p[i+1:]
	}
	return p
}

// callGo evaluates a call to a real Go function inside a specification by
// symbolic execution of its body on a copy of the state (result only).
func (e *Env) callGo(fn *ssa.Function, recv *V, args []CExpr) V {
	x := e.x
	if fn == nil {
		e.fail("function has no SSA body")
	}
	x.prog.ensureBuilt(fn)
	var vs []V
	if recv != nil {
		vs = append(vs, *recv)
	}
	sig := fn.Signature
	for i, a := range args {
		v := e.eval(a)
		if i < sig.Params().Len() {
			v = e.coerce(v, sig.Params().At(i).Type())
			if v.Math {
				v.Math = false
				v.T = sig.Params().At(i).Type()
			}
		}
		vs = append(vs, v)
	}
	// memo: a specification often names the same pure call several times (nested spec
	// functions); the result is a function of the argument terms and the heap version
	memoKey := ""
	{
		var b strings.Builder
		b.WriteString(fullFuncKey(fn))
		for _, v := range vs {
			b.WriteString("|" + v.S)
			for _, tv := range v.Tup {
				b.WriteString("," + tv.S)
			}
		}
		b.WriteString("|" + e.cur.alloc + fmt.Sprint(e.cur.base))
		hk := make([]string, 0, len(e.cur.heap))
		for k, v := range e.cur.heap {
			hk = append(hk, k+"="+v)
		}
		sort.Strings(hk)
		b.WriteString(strings.Join(hk, ";"))
		memoKey = b.String()
		if x.goMemo == nil {
			x.goMemo = map[string]V{}
		}
		if v, ok := x.goMemo[memoKey]; ok {
			return v
		}
	}
	ret := func(v V) V {
		x.goMemo[memoKey] = v
		return v
	}
	if recv == nil {
		var rt types.Type = types.NewTuple()
		if sig.Results().Len() == 1 {
			rt = sig.Results().At(0).Type()
		} else if sig.Results().Len() > 1 {
			rt = sig.Results()
		}
		if v, ok := x.abstractCall(e.cur, fn, vs, rt); ok {
			return ret(v)
		}
	}
	// library functions: the same models the code's own calls use
	{
		key := fullFuncKey(fn)
		if fn.Origin() != nil {
			key = fullFuncKey(fn.Origin())
		}
		stl := e.cur.clone()
		stl.guard = "true"
		x.curCall = nil
		var rt types.Type = types.NewTuple()
		if sig.Results().Len() == 1 {
			rt = sig.Results().At(0).Type()
		} else if sig.Results().Len() > 1 {
			rt = sig.Results()
		}
		x.specMode++
		v, ok := x.libCall(nil2frame(), stl, key, fn, vs, rt, 0)
		x.specMode--
		if ok {
			return ret(v)
		}
		if !x.prog.inRepo(pkgPathOfKey(fn, x.prog)) {
			e.fail("library function %s has no model and cannot be used in a contract", key)
		}
	}
	// a trusted pure function is known only through its contract
	if c := x.cs.Funcs[fullFuncKey(fn)]; c != nil && c.Trusted && c.Pure && len(c.Requires) == 0 {
		stl := e.cur.clone()
		stl.guard = "true"
		var rt types.Type = types.NewTuple()
		if sig.Results().Len() == 1 {
			rt = sig.Results().At(0).Type()
		} else if sig.Results().Len() > 1 {
			rt = sig.Results()
		}
		x.specMode++
		defer func() { x.specMode-- }()
		return ret(x.callContract(nil2frame(), stl, c, fn, nil, vs, rt, 0))
	}
	if fn.Blocks == nil {
		e.fail("function %s has no body", fn.Name())
	}
	if x.noDefine > 0 {
		e.fail("Go function %s cannot be called under a quantifier in a contract", fn.Name())
	}
	st := e.cur.clone()
	st.guard = "true"
	x.specMode++
	defer func() { x.specMode-- }()
	sub := &Frame{fn: fn, params: vs, contract: x.cs.Funcs[fullFuncKey(fn)], depth: 1}
	rs, _ := x.execFunc(sub, st)
	if len(rs) == 1 {
		return ret(rs[0])
	}
	return ret(V{Tup: rs})
}

func (e *Env) evalPlace(c CExpr) *Place {
	x := e.x
	switch n := c.(type) {
	case *CUn:
		if n.Op == "*" {
			v := e.eval(n.X)
			return x.placeOf(v)
		}
	case *CSel:
		// package-qualified package-level variable
		if id, ok := n.X.(*CIdent); ok && !e.isValueName(id.Name) {
			if pkg := e.importedPkg(id.Name); pkg != nil {
				if v, ok := pkg.Scope().Lookup(n.Name).(*types.Var); ok {
					if g := x.prog.globalFor(v); g != nil {
						return x.value(nil2frame(), g).Pl
					}
				}
				e.fail("%s.%s is not a package-level variable", id.Name, n.Name)
			}
		}
		base := e.eval(n.X)
		var bp *Place
		if _, isPtr := base.T.Underlying().(*types.Pointer); isPtr || base.Pl != nil {
			bp = x.placeOf(base)
		} else {
			bp = e.evalPlace(n.X)
		}
		if bp == nil {
			return nil
		}
		obj, index, _ := types.LookupFieldOrMethod(bp.Type(), true, e.pkgForLookup(bp.Type()), n.Name)
		if f, ok := obj.(*types.Var); !ok || !f.IsField() {
			e.fail("no field %s in %s", n.Name, bp.Type())
		}
		for _, fi := range index {
			st := bp.Type().Underlying().(*types.Struct)
			bp = bp.extend(PathSel{Field: fi, T: st.Field(fi).Type(), From: bp.Type()})
		}
		return bp
	case *CIndex:
		v := e.eval(n.X)
		if sl, ok := v.T.Underlying().(*types.Slice); ok {
			idx := x.toMathInt(e.eval(n.I))
			return &Place{Arr: heapKeySlice(sl.Elem()), Idx: []string{"(s_base " + v.S + ")", "(+ (s_off " + v.S + ") " + idx + ")"}, ElemT: sl.Elem()}
		}
	case *CIdent:
		if c, ok := e.cells[n.Name]; ok {
			if _, shadowed := e.names[n.Name]; !shadowed {
				return x.placeOf(c)
			}
		}
		if _, shadowed := e.names[n.Name]; e.pkg != nil && !shadowed {
			// a package-level variable of the contract's own package
			if v, ok := e.pkg.Scope().Lookup(n.Name).(*types.Var); ok {
				if g := x.prog.globalFor(v); g != nil {
					return x.value(nil2frame(), g).Pl
				}
			}
		}
		if e.frame != nil && e.frame.fn != nil {
			if _, shadowed := e.names[n.Name]; !shadowed {
				// a captured variable or an address-taken local is a cell
				for i, fv := range e.frame.fn.FreeVars {
					if fv.Name() == n.Name && i < len(e.frame.bindings) {
						if _, ok := e.frame.bindings[i].T.Underlying().(*types.Pointer); ok {
							return x.placeOf(e.frame.bindings[i])
						}
					}
				}
				for _, b := range e.frame.fn.Blocks {
					for _, in := range b.Instrs {
						if a, ok := in.(*ssa.Alloc); ok && a.Comment == n.Name {
							if av, ok := e.frame.vals[a]; ok {
								return x.placeOf(av)
							}
						}
					}
				}
			}
		}
		v := e.eval(n)
		if v.Pl != nil {
			return v.Pl
		}
	}
	return nil
}

// sliceEqTerm: two slices (possibly in different states) have equal length and contents.
func (x *Exec) sliceEqTerm(sa *State, a V, sb *State, b V) string {
	et := a.T.Underlying().(*types.Slice).Elem()
	ha := x.heapGet(sa, heapKeySlice(et), et)
	hb := x.heapGet(sb, heapKeySlice(et), et)
	return fmt.Sprintf("(and (= (s_len %s) (s_len %s)) (forall ((se! Int)) (=> (and (<= 0 se!) (< se! (s_len %s))) (= (select (select %s (s_base %s)) (+ (s_off %s) se!)) (select (select %s (s_base %s)) (+ (s_off %s) se!))))))",
		a.S, b.S, a.S, ha, a.S, a.S, hb, b.S, b.S)
}

// paramReassigned: some phi or alloc of the function carries the parameter's name,
// i.e. the source assigns to the parameter.
func paramReassigned(fn *ssa.Function, p *ssa.Parameter) bool {
	for _, b := range fn.Blocks {
		for _, in := range b.Instrs {
			switch i := in.(type) {
			case *ssa.Phi:
				if i.Comment == p.Name() {
					return true
				}
			case *ssa.Alloc:
				if i.Comment == p.Name() {
					return true
				}
			case *ssa.DebugRef:
				if o := i.Object(); o != nil && o == p.Object() && i.X != ssa.Value(p) {
					if _, isAddr := i.X.(*ssa.Alloc); !isAddr {
						return true
					}
				}
			}
		}
	}
	return false
}

// lookupLocal resolves a source-level local variable name at a program point.
func (x *Exec) lookupLocal(fr *Frame, name string, point *ssa.BasicBlock, st *State) (V, bool) {
	if fr.fn == nil {
		return V{}, false
	}
	for i, p := range fr.fn.Params {
		if p.Name() == name {
			// At a point inside the function a reassigned parameter denotes its current
			// value (old(p) denotes the entry value); at the exit it denotes the entry value.
			if point != nil && paramReassigned(fr.fn, p) {
				break
			}
			return fr.params[i], true
		}
	}
	for i, fv := range fr.fn.FreeVars {
		if fv.Name() == name && i < len(fr.bindings) {
			b := fr.bindings[i]
			// captured variables are cells
			if _, ok := b.T.Underlying().(*types.Pointer); ok {
				return x.loadPlace(st, x.placeOf(b)), true
			}
			return b, true
		}
	}
	if point == nil {
		// function exit: only allocs (named results / address-taken locals) are visible
		for _, b := range fr.fn.Blocks {
			for _, in := range b.Instrs {
				if a, ok := in.(*ssa.Alloc); ok && a.Comment == name {
					if av, ok := fr.vals[a]; ok {
						return x.loadPlace(st, x.placeOf(av)), true
					}
				}
			}
		}
		return V{}, false
	}
	type cand struct {
		v     ssa.Value
		addr  bool
		block *ssa.BasicBlock
		idx   int
	}
	var best *cand
	better := func(c *cand) bool {
		if best == nil {
			return true
		}
		if c.block == best.block {
			return c.idx > best.idx
		}
		// deeper in the dominator tree wins
		return best.block.Dominates(c.block)
	}
	for _, b := range fr.fn.Blocks {
		if !b.Dominates(point) {
			continue
		}
		for idx, in := range b.Instrs {
			switch i := in.(type) {
			case *ssa.Phi:
				if i.Comment == name {
					c := &cand{v: i, block: b, idx: idx}
					if better(c) {
						best = c
					}
				}
			case *ssa.Alloc:
				if i.Comment == name && (b != point || idx < fr.atIdx) {
					c := &cand{v: i, addr: true, block: b, idx: idx}
					if better(c) {
						best = c
					}
				}
			case *ssa.DebugRef:
				if b == point && idx >= fr.atIdx {
					continue
				}
				if fr.latchLoop != nil && b == point {
					if bin, ok := i.X.(*ssa.BinOp); ok && (bin.Op == token.ADD || bin.Op == token.SUB) {
						if _, isC := bin.Y.(*ssa.Const); isC {
							if ph, ok := bin.X.(*ssa.Phi); ok && ph.Block() == fr.latchLoop.head && ph.Comment == name {
								continue
							}
						}
					}
				}
				if o := i.Object(); o != nil && o.Name() == name {
					c := &cand{v: i.X, addr: i.IsAddr, block: b, idx: idx}
					if better(c) {
						best = c
					}
				}
			}
		}
	}
	if best == nil {
		for i, p := range fr.fn.Params {
			if p.Name() == name {
				return fr.params[i], true
			}
		}
		return V{}, false
	}
	// An address-taken variable (captured by a closure, or &x) lives in a cell: its
	// current value is what the cell holds now, not what an earlier read returned.
	if !best.addr {
		var cell *cand
		for _, b := range fr.fn.Blocks {
			if !b.Dominates(point) {
				continue
			}
			for idx, in := range b.Instrs {
				if a, ok := in.(*ssa.Alloc); ok && a.Comment == name && (b != point || idx < fr.atIdx) {
					c := &cand{v: a, addr: true, block: b, idx: idx}
					if cell == nil || cell.block.Dominates(c.block) {
						cell = c
					}
				}
			}
		}
		if cell != nil {
			if _, isPhi := best.v.(*ssa.Phi); !isPhi {
				best = cell
			}
		}
	}
	v, ok := fr.vals[best.v]
	if !ok {
		v = x.value(fr, best.v)
	}
	if best.addr {
		return x.loadPlace(st, x.placeOf(v)), true
	}
	return v, true
}

// evalClause evaluates a clause in the context of a frame at a program point.
func (x *Exec) evalClause(fr *Frame, c *Clause, st *State, point *ssa.BasicBlock, results []V) (out string) {
	env := x.frameEnv(fr, st, point, results)
	defer func() {
		if r := recover(); r != nil {
			if ce, ok := r.(contractError); ok {
				panic(contractError(fmt.Sprintf("%s:%d: %s", c.File, c.Line, string(ce))))
			}
			panic(r)
		}
	}()
	return env.evalBool(c.E)
}

func (x *Exec) evalExprAt(fr *Frame, e CExpr, st *State, point *ssa.BasicBlock) V {
	env := x.frameEnv(fr, st, point, nil)
	return env.eval(e)
}

func (x *Exec) frameEnv(fr *Frame, st *State, point *ssa.BasicBlock, results []V) *Env {
	env := &Env{x: x, names: map[string]V{}, cur: st, old: fr.entry, results: results, contract: fr.contract, frame: fr, point: point}
	env.pkg = x.prog.pkgOfFunc(fr.fn)
	if results != nil {
		env.bindResultNames(fr.fn, nil)
	}
	return env
}

// evalClauseCall evaluates an at-call clause: callee parameter names are bound
// to the actual arguments (prefixed with "arg."), caller locals are visible.
func (x *Exec) evalClauseCall(fr *Frame, c *Clause, st *State, callee *ssa.Function, args []V) string {
	env := x.frameEnv(fr, st, fr.curBlock, nil)
	if callee != nil {
		for i, p := range callee.Params {
			if i < len(args) {
				env.names["arg_"+p.Name()] = args[i]
			}
		}
	}
	for i, a := range args {
		env.names[fmt.Sprintf("arg%d", i)] = a
	}
	return env.evalBool(c.E)
}
