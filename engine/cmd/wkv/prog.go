package main

// Loading /repo packages and building SSA (DESIGN.md 3.1).

import (
	"fmt"
	"go/token"
	"go/types"
	"os"
	"path/filepath"
	"strings"
	"sync"

	"golang.org/x/tools/go/packages"
	"golang.org/x/tools/go/ssa"
	"golang.org/x/tools/go/ssa/ssautil"
)

type Program struct {
	dir      string
	fset     *token.FileSet
	pkgs     []*packages.Package
	all      map[string]*packages.Package
	ssaProg  *ssa.Program
	ssaPkgs  map[string]*ssa.Package
	built    map[*ssa.Package]bool
	mu       sync.Mutex
	storedG  map[*ssa.Global]bool // globals stored to outside init
	scannedG map[*ssa.Package]bool
	module   string
	dispatch map[*ssa.Global]*dispatchTable
}

func loadProgram(dir string, patterns []string, overlay map[string][]byte) (*Program, error) {
	cfg := &packages.Config{
		Mode: packages.NeedName | packages.NeedFiles | packages.NeedCompiledGoFiles | packages.NeedImports |
			packages.NeedDeps | packages.NeedTypes | packages.NeedSyntax | packages.NeedTypesInfo | packages.NeedTypesSizes | packages.NeedModule,
		Dir:        dir,
		BuildFlags: []string{"-tags=verif"},
		Overlay:    overlay,
		Env:        os.Environ(),
	}
	pkgs, err := packages.Load(cfg, patterns...)
	if err != nil {
		return nil, err
	}
	var errs []string
	packages.Visit(pkgs, nil, func(p *packages.Package) {
		for _, e := range p.Errors {
			errs = append(errs, e.Error())
		}
	})
	if len(errs) > 0 {
		return nil, fmt.Errorf("package load errors:\n%s", strings.Join(errs, "\n"))
	}
	p := &Program{dir: dir, pkgs: pkgs, all: map[string]*packages.Package{}, ssaPkgs: map[string]*ssa.Package{}, built: map[*ssa.Package]bool{},
		storedG: map[*ssa.Global]bool{}, scannedG: map[*ssa.Package]bool{}}
	packages.Visit(pkgs, nil, func(pk *packages.Package) { p.all[pk.PkgPath] = pk })
	if len(pkgs) > 0 {
		p.fset = pkgs[0].Fset
		if pkgs[0].Module != nil {
			p.module = pkgs[0].Module.Path
		}
	}
	prog, _ := ssautil.AllPackages(pkgs, ssa.GlobalDebug|ssa.InstantiateGenerics)
	p.ssaProg = prog
	for _, sp := range prog.AllPackages() {
		p.ssaPkgs[sp.Pkg.Path()] = sp
	}
	for _, pk := range pkgs {
		if sp := p.ssaPkgs[pk.PkgPath]; sp != nil {
			p.build(sp)
		}
	}
	return p, nil
}

func (p *Program) build(sp *ssa.Package) {
	p.mu.Lock()
	defer p.mu.Unlock()
	if p.built[sp] {
		return
	}
	p.built[sp] = true
	sp.Build()
}

func (p *Program) ensureBuilt(fn *ssa.Function) {
	if fn == nil {
		return
	}
	f := fn
	for f.Parent() != nil {
		f = f.Parent()
	}
	if f.Pkg != nil {
		p.build(f.Pkg)
		return
	}
	if o := f.Origin(); o != nil && o.Pkg != nil {
		p.build(o.Pkg)
	}
}

func (p *Program) inRepo(pkgPath string) bool {
	return p.module != "" && strings.HasPrefix(pkgPath, p.module)
}

func (p *Program) typesPkg(path string) *types.Package {
	if pk := p.all[path]; pk != nil {
		return pk.Types
	}
	return nil
}

func (p *Program) pkgByName(name string) *types.Package {
	var found *types.Package
	for _, pk := range p.all {
		if pk.Name == name {
			if found != nil && !p.inRepo(pk.PkgPath) {
				continue
			}
			found = pk.Types
		}
	}
	return found
}

func (p *Program) pkgOfFunc(fn *ssa.Function) *types.Package {
	f := fn
	for f != nil && f.Parent() != nil {
		f = f.Parent()
	}
	if f == nil {
		return nil
	}
	if f.Pkg != nil {
		return f.Pkg.Pkg
	}
	if o := f.Origin(); o != nil && o.Pkg != nil {
		return o.Pkg.Pkg
	}
	if f.Object() != nil {
		return f.Object().Pkg()
	}
	return nil
}

func (p *Program) funcFor(obj *types.Func) *ssa.Function {
	fn := p.ssaProg.FuncValue(obj)
	if fn != nil {
		p.ensureBuilt(fn)
	}
	return fn
}

func (p *Program) globalFor(v *types.Var) *ssa.Global {
	if v.Pkg() == nil {
		return nil
	}
	sp := p.ssaPkgs[v.Pkg().Path()]
	if sp == nil {
		return nil
	}
	g, _ := sp.Members[v.Name()].(*ssa.Global)
	return g
}

// immutableGlobal reports whether a package-level variable is never stored to
// outside its package's init function.
func (p *Program) immutableGlobal(g *ssa.Global) bool {
	if strings.HasPrefix(g.Name(), "verif") {
		// ghost state declared in a verif-tagged file: only contracts change it
		return false
	}
	sp := g.Pkg
	p.build(sp)
	p.mu.Lock()
	defer p.mu.Unlock()
	if !p.scannedG[sp] {
		p.scannedG[sp] = true
		var visit func(fn *ssa.Function)
		visit = func(fn *ssa.Function) {
			if fn.Name() == "init" && fn.Parent() == nil {
				for _, af := range fn.AnonFuncs {
					visit(af)
				}
				return
			}
			for _, b := range fn.Blocks {
				for _, in := range b.Instrs {
					for _, op := range in.Operands(nil) {
						if gg, ok := (*op).(*ssa.Global); ok && gg.Pkg == sp {
							switch i := in.(type) {
							case *ssa.UnOp:
								continue // load
							case *ssa.Store:
								if i.Addr == gg {
									p.storedG[gg] = true
								} else {
									p.storedG[gg] = true // address escapes into a value
								}
							case *ssa.FieldAddr, *ssa.IndexAddr:
								// conservative: address of a part taken
								p.storedG[gg] = true
							default:
								p.storedG[gg] = true
							}
						}
					}
				}
			}
			for _, af := range fn.AnonFuncs {
				visit(af)
			}
		}
		for _, m := range sp.Members {
			switch mm := m.(type) {
			case *ssa.Function:
				visit(mm)
			case *ssa.Type:
				for _, t := range []types.Type{mm.Type(), types.NewPointer(mm.Type())} {
					ms := sp.Prog.MethodSets.MethodSet(t)
					for i := 0; i < ms.Len(); i++ {
						if fn := sp.Prog.MethodValue(ms.At(i)); fn != nil && fn.Pkg == sp {
							visit(fn)
						}
					}
				}
			}
		}
	}
	return !p.storedG[g]
}

// findFunc resolves "pkgpath.key" to an SSA function (methods and closures included).
func (p *Program) findFunc(pkgPath, key string) *ssa.Function {
	sp := p.ssaPkgs[pkgPath]
	if sp == nil {
		return nil
	}
	p.build(sp)
	base := key
	var closurePath []string
	if i := strings.Index(key, "$"); i >= 0 {
		base = key[:i]
		closurePath = strings.Split(key[i+1:], "$")
	}
	var fn *ssa.Function
	if strings.HasPrefix(base, "(") {
		// (*T).M or (T).M
		end := strings.Index(base, ")")
		recv := base[1:end]
		meth := base[end+2:]
		ptr := strings.HasPrefix(recv, "*")
		recv = strings.TrimPrefix(recv, "*")
		tn, ok := sp.Pkg.Scope().Lookup(recv).(*types.TypeName)
		if !ok {
			return nil
		}
		var t types.Type = tn.Type()
		if ptr {
			t = types.NewPointer(t)
		}
		ms := p.ssaProg.MethodSets.MethodSet(t)
		for i := 0; i < ms.Len(); i++ {
			if ms.At(i).Obj().Name() == meth {
				fn = p.ssaProg.MethodValue(ms.At(i))
			}
		}
		if fn != nil && fn.Synthetic != "" && !ptr {
			fn = nil
		}
	} else {
		fn, _ = sp.Members[base].(*ssa.Function)
	}
	for _, c := range closurePath {
		if fn == nil {
			return nil
		}
		var next *ssa.Function
		for _, af := range fn.AnonFuncs {
			if af.Name() == fn.Name()+"$"+c {
				next = af
			}
		}
		fn = next
	}
	return fn
}

// isInterfaceMethod: key "(Iface).M" names a method of an interface type of the package.
func (p *Program) isInterfaceMethod(pkgPath, key string) bool {
	tp := p.typesPkg(pkgPath)
	if tp == nil || !strings.HasPrefix(key, "(") {
		return false
	}
	end := strings.Index(key, ")")
	if end < 0 || end+2 > len(key) {
		return false
	}
	tn, ok := tp.Scope().Lookup(strings.TrimPrefix(key[1:end], "*")).(*types.TypeName)
	if !ok {
		return false
	}
	it, ok := tn.Type().Underlying().(*types.Interface)
	if !ok {
		return false
	}
	meth := key[end+2:]
	for i := 0; i < it.NumMethods(); i++ {
		if it.Method(i).Name() == meth {
			return true
		}
	}
	return false
}

func (p *Program) pos(pos token.Pos) string {
	if !pos.IsValid() || p.fset == nil {
		return ""
	}
	ps := p.fset.Position(pos)
	rel, err := filepath.Rel(p.dir, ps.Filename)
	if err != nil {
		rel = ps.Filename
	}
	return fmt.Sprintf("%s:%d", rel, ps.Line)
}

// posShort: position relative to the function start (stable under edits above the function).
func (p *Program) posShort(pos token.Pos, fn *ssa.Function) string {
	if !pos.IsValid() || p.fset == nil {
		return "?"
	}
	ps := p.fset.Position(pos)
	base := 0
	if fn != nil {
		f := fn
		for f.Parent() != nil {
			f = f.Parent()
		}
		if f.Pos().IsValid() {
			base = p.fset.Position(f.Pos()).Line
		}
	}
	return fmt.Sprintf("%s+%d:%d", funcKeyShort(fn), ps.Line-base, ps.Column)
}

func funcKeyShort(fn *ssa.Function) string {
	if fn == nil {
		return "?"
	}
	return fn.Name()
}

var pureFuncs = map[string]bool{}

func (p *Program) knownPure(key string) bool {
	if pureFuncs[key] {
		return true
	}
	for _, pre := range []string{"fmt.Sprint", "fmt.Errorf", "errors.", "strings.", "strconv.", "bytes.Equal", "bytes.Compare", "bytes.HasPrefix", "bytes.Index",
		"unicode.", "utf8.", "unicode/utf8.", "math.", "math/bits.", "time.Now", "time.Since", "time.Duration", "(time.", "slices.", "sort.Search", "hash/crc32.ChecksumIEEE", "path.", "path/filepath.",
		"(*sync.Mutex)", "(*sync.RWMutex)", "(sync.", "sync.", "(*sync.", "runtime.", "encoding/hex.", "encoding/base64.", "os.Getenv", "reflect.DeepEqual", "github.com/pkg/errors.",
		"(*github.com/WuKongIM/WuKongIM/pkg/wklog", "github.com/WuKongIM/WuKongIM/pkg/wklog", "go.uber.org/zap", "(*go.uber.org/zap", "(go.uber.org/zap", "log.", "(*log.",
		// external storage engine: its calls return unconstrained values and never write WuKongIM's own heap objects
		"github.com/cockroachdb/pebble",
		// snowflake id generator: returns an arbitrary int64 (no monotonicity is assumed)
		"github.com/bwmarrin/snowflake",
		// operating-system calls that never write the program's own heap objects (they copy
		// out of the buffers they are given); (*File).Read and friends are NOT in this list
		"os.ReadFile", "os.CreateTemp", "os.Remove", "os.Rename", "os.Open", "os.OpenFile", "os.Stat", "os.MkdirAll",
		"os.(*File).Name", "os.(*File).Write", "os.(*File).Sync", "os.(*File).Close", "os.(*File).Stat",
		"encoding/json.Marshal", "encoding/json.NewDecoder", "encoding/json.(*Decoder).DisallowUnknownFields", "bytes.NewReader", "bytes.NewBuffer",
		"context.", "time.", "hash/crc32.", "hash/fnv.", "hash/maphash.", "math/rand"} {
		if strings.HasPrefix(key, pre) {
			return true
		}
	}
	return false
}

// methodOf: the concrete method that a call of interface method m dispatches to when the
// dynamic type is t (nil when it cannot be determined or has no body in the program).
func (p *Program) methodOf(t types.Type, m *types.Func) *ssa.Function {
	if types.IsInterface(t) {
		return nil
	}
	ms := p.ssaProg.MethodSets.MethodSet(t)
	sel := ms.Lookup(m.Pkg(), m.Name())
	if sel == nil {
		return nil
	}
	fn := p.ssaProg.MethodValue(sel)
	if fn == nil {
		return nil
	}
	p.ensureBuilt(fn)
	if fn.Blocks == nil {
		return nil
	}
	return fn
}
