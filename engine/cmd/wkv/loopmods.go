package main

// Loop frames: which heap locations a loop may write, and the havoc applied at
// the loop head (DESIGN.md 3.5 "Loops", "Frames"). Writes whose target object
// is identified by a value defined before the loop are havocked per object (and
// per top-level field); everything else allocated before the loop keeps its
// contents; objects allocated inside the loop are unconstrained.

import (
	"fmt"
	"go/token"
	"go/types"
	"regexp"
	"strings"

	"golang.org/x/tools/go/ssa"
)

type loopMod struct {
	key   string
	t     types.Type
	whole bool
	// calleeFields: when the only reason for `whole` is a callee that writes some top-level
	// fields of objects of this struct type, the union of those fields (nil = unknown)
	calleeFields map[int]bool
	calleeOnly   bool
	roots map[ssa.Value]map[int]bool // root -> written top-level fields (nil = whole object)
	// derefRoots: slices loaded inside the loop from a cell allocated before the loop
	// (a variable captured by a closure); valid only if the loop never writes that cell.
	derefRoots map[ssa.Value]string // cell pointer -> heap key of the cell
	// loadRoots: slices/maps loaded inside the loop from a field path of an object
	// identified before the loop (s.Pending, rc.state.ISR, ...); valid only if the loop
	// never writes that field.
	loadRoots []*loadMarker
}

type loadMarker struct {
	ssa.Value
	root ssa.Value
	path []int
	key  string
}

// invariantLoad recognises v = *(&root.f1.f2...) with root defined outside the loop.
func invariantLoad(v ssa.Value, li *loopInfo) *loadMarker {
	u, ok := v.(*ssa.UnOp)
	if !ok || u.Op != token.MUL {
		return nil
	}
	var path []int
	addr := u.X
	for {
		fa, ok := addr.(*ssa.FieldAddr)
		if !ok {
			break
		}
		path = append([]int{fa.Field}, path...)
		addr = fa.X
	}
	if len(path) == 0 || !definedOutside(addr, li) {
		return nil
	}
	pt, ok := addr.Type().Underlying().(*types.Pointer)
	if !ok {
		return nil
	}
	return &loadMarker{Value: v, root: addr, path: path, key: heapKeyObj(pt.Elem())}
}

// derefMarker marks "the value stored in this cell" as a root.
type derefMarker struct{ ssa.Value }

func definedOutside(v ssa.Value, li *loopInfo) bool {
	switch v.(type) {
	case *ssa.Parameter, *ssa.FreeVar, *ssa.Const, *ssa.Global, *ssa.Function, *ssa.Builtin:
		return true
	}
	if in, ok := v.(ssa.Instruction); ok {
		return in.Block() != nil && !li.blocks[in.Block()]
	}
	return false
}

func sliceRoots(v ssa.Value, li *loopInfo, seen map[ssa.Value]bool) ([]ssa.Value, bool) {
	if seen[v] {
		return nil, true
	}
	seen[v] = true
	if definedOutside(v, li) {
		return []ssa.Value{v}, true
	}
	if lm := invariantLoad(v, li); lm != nil {
		return []ssa.Value{lm}, true
	}
	switch i := v.(type) {
	case *ssa.Phi:
		var out []ssa.Value
		for _, e := range i.Edges {
			r, ok := sliceRoots(e, li, seen)
			if !ok {
				return nil, false
			}
			out = append(out, r...)
		}
		return out, true
	case *ssa.Slice:
		if _, ok := i.X.Type().Underlying().(*types.Slice); ok {
			return sliceRoots(i.X, li, seen)
		}
		return nil, false
	case *ssa.MakeSlice:
		return nil, true
	case *ssa.Convert:
		return nil, true
	case *ssa.UnOp:
		if i.Op == token.MUL && definedOutside(i.X, li) {
			if al, isAlloc := i.X.(*ssa.Alloc); isAlloc {
				// the cell's content at loop entry, plus whatever the loop stores into the cell
				out := []ssa.Value{derefMarker{i.X}}
				for _, ref := range *al.Referrers() {
					st, isStore := ref.(*ssa.Store)
					if !isStore || st.Addr != al || !li.blocks[st.Block()] {
						continue
					}
					r, ok := sliceRoots(st.Val, li, seen)
					if !ok {
						return nil, false
					}
					out = append(out, r...)
				}
				return out, true
			}
		}
	case *ssa.Call:
		if b, ok := i.Call.Value.(*ssa.Builtin); ok && b.Name() == "append" {
			return sliceRoots(i.Call.Args[0], li, seen)
		}
		// append-like callees: the result shares the array of one argument or is fresh
		if appendLikeArg != nil {
			if a := appendLikeArg(i); a != nil {
				return sliceRoots(a, li, seen)
			}
		}
	}
	return nil, false
}

// appendLikeArg (set while a function is executed): for a call whose callee's contract
// ensures `sameArray(result, p) || fresh(result)` - or binary.*.AppendUintN - the argument p.
var appendLikeArg func(c *ssa.Call) ssa.Value

var appendLikeRe = regexp.MustCompile(`^sameArray\(result, (\w+)\) \|\| fresh\(result\)$`)

func (x *Exec) appendLikeArgOf(c *ssa.Call) ssa.Value {
	cal := c.Call.StaticCallee()
	if cal == nil {
		return nil
	}
	key := fullFuncKey(cal)
	if (strings.HasPrefix(key, "encoding/binary.(bigEndian).AppendUint") || strings.HasPrefix(key, "encoding/binary.(littleEndian).AppendUint")) && len(c.Call.Args) >= 2 {
		return c.Call.Args[1]
	}
	ct := x.contractFor(key)
	if ct == nil {
		return nil
	}
	for _, e := range ct.Ensures {
		m := appendLikeRe.FindStringSubmatch(strings.TrimSpace(e.Src))
		if m == nil {
			continue
		}
		for i, p := range cal.Params {
			if p.Name() == m[1] && i < len(c.Call.Args) {
				return c.Call.Args[i]
			}
		}
	}
	return nil
}

// elemsOnlyAssigns: when every assigns place of the callee's contract is elems(<param>),
// the arguments bound to those parameters (nil otherwise).
func (x *Exec) elemsOnlyAssigns(cc *ssa.CallCommon) []ssa.Value {
	cal := cc.StaticCallee()
	if cal == nil {
		return nil
	}
	ct := x.contractFor(fullFuncKey(cal))
	if ct == nil || !ct.HasAssigns || len(ct.Assigns) == 0 {
		return nil
	}
	var out []ssa.Value
	for _, a := range ct.Assigns {
		a = strings.TrimSpace(a)
		if !strings.HasPrefix(a, "elems(") || !strings.HasSuffix(a, ")") {
			return nil
		}
		name := strings.TrimSpace(a[len("elems(") : len(a)-1])
		found := false
		for i, p := range cal.Params {
			if p.Name() == name && i < len(cc.Args) {
				out = append(out, cc.Args[i])
				found = true
			}
		}
		if !found {
			return nil
		}
	}
	return out
}

// storeRoot analyses a store address: returns the heap key, the root value (nil
// when the object is allocated inside the loop), the written top-level field
// (-1 = whole object) and whether the analysis succeeded.
func storeRoot(addr ssa.Value, li *loopInfo) (key string, t types.Type, roots []ssa.Value, field int, fresh bool, ok bool) {
	switch a := addr.(type) {
	case *ssa.FieldAddr:
		k, tt, r, f, fr, ok2 := storeRoot(a.X, li)
		if !ok2 {
			return k, tt, nil, -1, false, false
		}
		if f == -1 && strings.HasPrefix(k, "H:") && isRootPointer(a.X) {
			f = a.Field
		}
		return k, tt, r, f, fr, true
	case *ssa.IndexAddr:
		switch u := a.X.Type().Underlying().(type) {
		case *types.Slice:
			r, ok2 := sliceRoots(a.X, li, map[ssa.Value]bool{})
			return heapKeySlice(u.Elem()), u.Elem(), r, -1, false, ok2
		case *types.Pointer:
			k, tt, r, _, fr, ok2 := storeRoot(a.X, li)
			return k, tt, r, -2, fr, ok2
		}
	case *ssa.Alloc:
		tt := a.Type().(*types.Pointer).Elem()
		hk, ht := heapKeyForObj(tt)
		if definedOutside(a, li) {
			return hk, ht, []ssa.Value{a}, -1, false, true
		}
		return hk, ht, nil, -1, true, true
	case *ssa.Global:
		tt := a.Type().(*types.Pointer).Elem()
		return heapKeyGlobal(a.Pkg.Pkg.Path() + "." + a.Name()), tt, nil, -1, false, false
	}
	pt, isPtr := addr.Type().Underlying().(*types.Pointer)
	if !isPtr {
		return "", nil, nil, -1, false, false
	}
	hk2, ht2 := heapKeyForObj(pt.Elem())
	if definedOutside(addr, li) {
		return hk2, ht2, []ssa.Value{addr}, -1, false, true
	}
	return hk2, ht2, nil, -1, false, false
}

// isRootPointer: the FieldAddr operand is itself the root object pointer (not a nested field address).
func isRootPointer(v ssa.Value) bool {
	switch v.(type) {
	case *ssa.FieldAddr, *ssa.IndexAddr:
		return false
	}
	return true
}

func (x *Exec) loopTargets(fr *Frame, li *loopInfo) (map[string]*loopMod, bool) {
	appendLikeArg = x.appendLikeArgOf
	heapElemFields = x.heapElemFieldsOf
	mods := map[string]*loopMod{}
	get := func(key string, t types.Type) *loopMod {
		m := mods[key]
		if m == nil {
			m = &loopMod{key: key, t: t, roots: map[ssa.Value]map[int]bool{}}
			mods[key] = m
		}
		return m
	}
	addRoots := func(m *loopMod, roots []ssa.Value, field int) {
		for _, r := range roots {
			if lm, ok := r.(*loadMarker); ok {
				m.loadRoots = append(m.loadRoots, lm)
				continue
			}
			if dm, ok := r.(derefMarker); ok {
				if m.derefRoots == nil {
					m.derefRoots = map[ssa.Value]string{}
				}
				m.derefRoots[dm.Value] = heapKeyObj(dm.Value.Type().Underlying().(*types.Pointer).Elem())
				continue
			}
			fs, seen := m.roots[r]
			if field < 0 {
				m.roots[r] = nil
				continue
			}
			if seen && fs == nil {
				continue
			}
			if fs == nil {
				fs = map[int]bool{}
			}
			fs[field] = true
			m.roots[r] = fs
		}
	}
	all := false
	// callee effects (whole keys)
	calleeAcc := map[string]modTarget{}
	seen := map[*ssa.Function]bool{fr.fn: true}
	for b := range li.blocks {
		for _, in := range b.Instrs {
			switch i := in.(type) {
			case *ssa.Next:
				if rg, ok := i.Iter.(*ssa.Range); ok {
					if _, isMap := rg.X.Type().Underlying().(*types.Map); isMap {
						get(rangeCountKey(fr.fn, rg), types.Typ[types.Int]).whole = true
					}
				}
			case *ssa.Store:
				k, t, roots, field, fresh, ok := storeRoot(i.Addr, li)
				if k == "" {
					all = true
					continue
				}
				m := get(k, t)
				if !ok {
					m.whole = true
					continue
				}
				if fresh {
					continue
				}
				addRoots(m, roots, field)
			case *ssa.MapUpdate:
				mt := i.Map.Type().Underlying().(*types.Map)
				for _, k := range []string{heapKeyMapP(mt), heapKeyMapV(mt), heapKeyMapL(mt)} {
					m := get(k, mt)
					if definedOutside(i.Map, li) {
						addRoots(m, []ssa.Value{i.Map}, -1)
					} else if lm := invariantLoad(i.Map, li); lm != nil {
						addRoots(m, []ssa.Value{lm}, -1)
					} else if _, isMake := i.Map.(*ssa.MakeMap); !isMake {
						m.whole = true
					}
				}
			case *ssa.Alloc, *ssa.MakeSlice, *ssa.MakeMap, *ssa.Convert:
				// fresh objects only: covered by "allocated inside the loop"
				switch v := in.(type) {
				case *ssa.Alloc:
					t := v.Type().(*types.Pointer).Elem()
					hk, ht := heapKeyForObj(t)
					get(hk, ht)
				case *ssa.MakeSlice:
					et := v.Type().Underlying().(*types.Slice).Elem()
					get(heapKeySlice(et), et)
				case *ssa.MakeMap:
					mt := v.Type().Underlying().(*types.Map)
					get(heapKeyMapP(mt), mt)
					get(heapKeyMapL(mt), mt)
				case *ssa.Convert:
					if sl, ok := v.Type().Underlying().(*types.Slice); ok {
						get(heapKeySlice(sl.Elem()), sl.Elem())
					}
				}
			case *ssa.Slice:
				if pt, ok := i.X.Type().Underlying().(*types.Pointer); ok {
					if arr, ok := pt.Elem().Underlying().(*types.Array); ok {
						get(heapKeySlice(arr.Elem()), arr.Elem())
					}
				}
			case ssa.CallInstruction:
				cc := i.Common()
				if _, isGo := in.(*ssa.Go); isGo {
					continue
				}
				if b2, ok := cc.Value.(*ssa.Builtin); ok {
					switch b2.Name() {
					case "append", "copy":
						if sl, ok := cc.Args[0].Type().Underlying().(*types.Slice); ok {
							m := get(heapKeySlice(sl.Elem()), sl.Elem())
							roots, ok := sliceRoots(cc.Args[0], li, map[ssa.Value]bool{})
							if !ok {
								m.whole = true
							} else {
								addRoots(m, roots, -1)
							}
						}
					case "delete", "clear":
						if mt, ok := cc.Args[0].Type().Underlying().(*types.Map); ok {
							for _, k := range []string{heapKeyMapP(mt), heapKeyMapV(mt), heapKeyMapL(mt)} {
								m := get(k, mt)
								if definedOutside(cc.Args[0], li) {
									addRoots(m, []ssa.Value{cc.Args[0]}, -1)
								} else if lm := invariantLoad(cc.Args[0], li); lm != nil {
									addRoots(m, []ssa.Value{lm}, -1)
								} else {
									m.whole = true
								}
							}
						} else if sl, ok := cc.Args[0].Type().Underlying().(*types.Slice); ok {
							get(heapKeySlice(sl.Elem()), sl.Elem()).whole = true
						}
					}
					continue
				}
				// typed atomics write exactly the receiver: treat like a store through that address
				if cal := cc.StaticCallee(); cal != nil && strings.HasPrefix(fullFuncKey(cal), "sync/atomic.(*") && len(cc.Args) >= 1 {
					k, t, roots, field, fresh, ok := storeRoot(cc.Args[0], li)
					if k != "" {
						m := get(k, t)
						if !ok {
							m.whole = true
						} else if !fresh {
							addRoots(m, roots, field)
						}
						continue
					}
				}
				// callees whose contract assigns only the elements of argument slices
				if args := x.elemsOnlyAssigns(cc); args != nil {
					okAll := true
					for _, arg := range args {
						sl, isSl := arg.Type().Underlying().(*types.Slice)
						if !isSl {
							okAll = false
							break
						}
						m := get(heapKeySlice(sl.Elem()), sl.Elem())
						roots, ok := sliceRoots(arg, li, map[ssa.Value]bool{})
						if !ok {
							m.whole = true
						} else {
							addRoots(m, roots, -1)
						}
					}
					if okAll {
						continue
					}
				}
				// library operations that write exactly the elements of one argument slice
				if arg := inPlaceSliceArg(cc); arg != nil {
					if sl, ok := arg.Type().Underlying().(*types.Slice); ok {
						m := get(heapKeySlice(sl.Elem()), sl.Elem())
						roots, ok := sliceRoots(arg, li, map[ssa.Value]bool{})
						if !ok {
							m.whole = true
						} else {
							addRoots(m, roots, -1)
						}
						continue
					}
				}
				// other calls: whole-key effects from the callee analysis
				tmpBlocks := map[*ssa.BasicBlock]bool{b: true}
				_ = tmpBlocks
				if x.collectCallMods(cc, in, seen, calleeAcc) {
					all = true
				}
			}
		}
	}
	for k, m := range calleeAcc {
		lm := get(k, m.t)
		if !lm.whole && m.fields != nil {
			// so far only field-granular callee writes: remember which fields
			if lm.calleeFields == nil && !lm.calleeOnly {
				lm.calleeFields = map[int]bool{}
				lm.calleeOnly = true
			}
			if lm.calleeOnly {
				for f := range m.fields {
					lm.calleeFields[f] = true
				}
			}
		} else {
			lm.calleeOnly = false
			lm.calleeFields = nil
		}
		lm.whole = true
	}
	// cells read as roots must not be written by the loop
	for _, m := range mods {
		for cell, ck := range m.derefRoots {
			// direct stores `*cell = v` inside the loop were followed by sliceRoots; any
			// other way of writing cells of this type (unknown pointer, callee) invalidates
			if cm := mods[ck]; cm != nil && cm.whole {
				m.whole = true
			}
			_ = cell
		}
		for _, lm := range m.loadRoots {
			// the loaded field must not be written by the loop (conservatively: the loop
			// writes no object of that type through any root, or only other top-level fields
			// of this very root)
			cm := mods[lm.key]
			if cm == nil {
				continue
			}
			if cm.whole {
				m.whole = true
				continue
			}
			for r, fs := range cm.roots {
				if r != lm.root || fs == nil || fs[lm.path[0]] {
					m.whole = true
				}
			}
			if len(cm.derefRoots) > 0 || len(cm.loadRoots) > 0 {
				m.whole = true
			}
		}
	}
	return mods, all
}

// collectCallMods adds the heap keys one call may write.
func (x *Exec) collectCallMods(cc *ssa.CallCommon, in ssa.Instruction, seen map[*ssa.Function]bool, acc map[string]modTarget) bool {
	// reuse collectMods on a synthetic single-instruction view: analyse the callee directly
	if _, isDefer := in.(*ssa.Defer); isDefer {
		if cal := cc.StaticCallee(); cal != nil && strings.HasPrefix(fullFuncKey(cal), "sync.") {
			return false
		}
	}
	if cc.IsInvoke() {
		if c := x.portContract(cc.Method); c != nil && (c.HasAssigns || c.Pure) && len(c.Assigns) == 0 {
			return false
		}
		if cc.Method.Name() == "Error" || (cc.Method.Pkg() != nil && cc.Method.Pkg().Path() == "context") {
			return false
		}
		// a port whose assigns clause names package-level variables only (ghost counters)
		if c := x.portContract(cc.Method); c != nil && len(c.Assigns) > 0 {
			if ms, ok := x.globalAssignKeys(c); ok {
				for _, m := range ms {
					acc[m.key] = m
				}
				return false
			}
		}
		return true
	}
	var cf *ssa.Function
	switch c2 := cc.Value.(type) {
	case *ssa.Function:
		cf = c2
	case *ssa.MakeClosure:
		cf = c2.Fn.(*ssa.Function)
	}
	if cf == nil {
		if _, ok := x.pureFieldFunc(cc); ok {
			return false
		}
		if dt, _ := x.dispatchTableOf(cc.Value); dt != nil {
			return x.dispatchMods(dt, acc)
		}
		return true
	}
	key := fullFuncKey(cf)
	if cf.Origin() != nil {
		key = fullFuncKey(cf.Origin())
	}
	if ms, ok := x.libMods(key, cc); ok {
		for _, m := range ms {
			acc[m.key] = m
		}
		return false
	}
	if c := x.contractFor(key); c != nil && (c.HasAssigns || c.Pure) {
		if len(c.Assigns) > 0 {
			ms, a2 := x.contractModKeys(c, cf)
			for _, m := range ms {
				acc[m.key] = m
			}
			return a2
		}
		return false
	}
	x.prog.ensureBuilt(cf)
	if cf.Blocks == nil || !x.prog.inRepo(pkgPathOfKey(cf, x.prog)) {
		return !x.prog.knownPure(key)
	}
	return x.collectMods(cf, nil, seen, acc, 1)
}

// loopHavoc applies the loop frame at the head.
func (x *Exec) loopHavoc(fr *Frame, li *loopInfo, entry, head *State) {
	mods, all := x.loopTargets(fr, li)
	fname := funcKey(fr.fn)
	if all {
		x.havocAll(head, fmt.Sprintf("loop %d of %s calls code with unknown effects", li.ordinal, fname))
		return
	}
	for _, k := range sortedKeys(mods) {
		m := mods[k]
		if strings.HasPrefix(k, "G:") || m.whole {
			if m.calleeOnly && m.calleeFields != nil && len(m.roots) == 0 && len(m.derefRoots) == 0 && len(m.loadRoots) == 0 {
				// the loop itself never stores into objects of this type; callees write only
				// these top-level fields
				x.havocModTarget(head, modTarget{key: k, t: m.t, fields: m.calleeFields})
				continue
			}
			x.havocKeyCall(head, k, m.t)
			continue
		}
		old := x.heapGet(entry, k, m.t)
		x.havocKey(head, k, m.t)
		nw := head.heap[k]
		// objects allocated before the loop and not written through a known root keep their contents
		var excl []string
		type rootInfo struct {
			term   string
			fields map[int]bool
		}
		var infos []rootInfo
		ok := true
		for cell := range m.derefRoots {
			cv := x.value(fr, cell)
			lv := x.loadPlace(entry, x.placeOf(cv))
			excl = append(excl, "(not (= fr! (s_base "+lv.S+")))")
		}
		for _, lm := range m.loadRoots {
			rv := x.value(fr, lm.root)
			pl := x.placeOf(rv)
			okPath := true
			for _, fi := range lm.path {
				stT, isStruct := pl.Type().Underlying().(*types.Struct)
				if !isStruct {
					okPath = false
					break
				}
				pl = pl.extend(PathSel{Field: fi, T: stT.Field(fi).Type(), From: pl.Type()})
			}
			if !okPath {
				ok = false
				break
			}
			lv := x.loadPlace(entry, pl)
			if strings.HasPrefix(k, "S:") {
				excl = append(excl, "(not (= fr! (s_base "+lv.S+")))")
			} else {
				excl = append(excl, "(not (= fr! "+lv.S+"))")
			}
		}
		for r, fs := range m.roots {
			v := x.value(fr, r)
			var term string
			switch {
			case strings.HasPrefix(k, "S:"):
				if v.Pl != nil {
					ok = false
				}
				term = "(s_base " + v.S + ")"
			case strings.HasPrefix(k, "H:"):
				if v.Pl != nil {
					if v.Pl.Arr != k || len(v.Pl.Idx) != 1 {
						ok = false
						break
					}
					term = v.Pl.Idx[0]
					if len(v.Pl.Path) > 0 {
						if v.Pl.Path[0].Field >= 0 {
							fs = map[int]bool{v.Pl.Path[0].Field: true}
						} else {
							fs = nil
						}
					}
				} else {
					term = v.S
				}
			default: // maps
				term = v.S
			}
			if !ok {
				break
			}
			excl = append(excl, "(not (= fr! "+term+"))")
			infos = append(infos, rootInfo{term, fs})
		}
		if !ok {
			continue // whole havoc already applied
		}
		cond := and(append([]string{"(<= fr! " + entry.alloc + ")"}, excl...)...)
		x.assume("true", fmt.Sprintf("(forall ((fr! Int)) (! (=> %s (= (select %s fr!) (select %s fr!))) :pattern ((select %s fr!))))", cond, nw, old, nw))
		// field-granular frame for written roots
		if strings.HasPrefix(k, "H:") {
			if st, isStruct := m.t.Underlying().(*types.Struct); isStruct {
				for _, ri := range infos {
					if ri.fields == nil {
						continue
					}
					for j := 0; j < st.NumFields(); j++ {
						if ri.fields[j] {
							continue
						}
						acc := x.s.accessor(m.t, j)
						x.assume("true", fmt.Sprintf("(= (%s (select %s %s)) (%s (select %s %s)))", acc, nw, ri.term, acc, old, ri.term))
					}
				}
			}
		}
	}
}

// inPlaceSliceArg: for library calls that write the elements of exactly one argument slice
// and nothing else (binary.BigEndian.PutUint64(b, v), sort.Strings(s), sort.Slice(s, less)
// with a pure comparator), that argument.
func inPlaceSliceArg(cc *ssa.CallCommon) ssa.Value {
	cal := cc.StaticCallee()
	if cal == nil {
		return nil
	}
	key := fullFuncKey(cal)
	if cal.Origin() != nil {
		key = fullFuncKey(cal.Origin())
	}
	if (strings.HasPrefix(key, "encoding/binary.(bigEndian).PutUint") || strings.HasPrefix(key, "encoding/binary.(littleEndian).PutUint")) && len(cc.Args) >= 2 {
		return cc.Args[1]
	}
	switch key {
	case "sort.Strings", "sort.Ints", "sort.Float64s", "slices.Sort", "slices.Reverse":
		if len(cc.Args) >= 1 {
			return cc.Args[0]
		}
	}
	return nil
}

// globalAssignKeys: the heap keys of an assigns clause that names package-level variables
// only (`verifWritten`, `codec.verifWritten`); ok is false for any other clause.
func (x *Exec) globalAssignKeys(c *Contract) ([]modTarget, bool) {
	env := &Env{x: x, pkg: x.prog.typesPkg(c.Pkg), names: map[string]V{}, contract: c}
	var out []modTarget
	for _, a := range c.Assigns {
		e, err := parseCExpr(a)
		if err != nil {
			return nil, false
		}
		var obj types.Object
		switch n := e.(type) {
		case *CIdent:
			if env.pkg == nil {
				return nil, false
			}
			obj = env.pkg.Scope().Lookup(n.Name)
		case *CSel:
			id, ok := n.X.(*CIdent)
			if !ok {
				return nil, false
			}
			pkg := env.importedPkg(id.Name)
			if pkg == nil {
				return nil, false
			}
			obj = pkg.Scope().Lookup(n.Name)
		default:
			return nil, false
		}
		v, ok := obj.(*types.Var)
		if !ok || v.Pkg() == nil || v.Parent() != v.Pkg().Scope() {
			return nil, false
		}
		out = append(out, modTarget{key: heapKeyGlobal(v.Pkg().Path() + "." + v.Name()), t: v.Type()})
	}
	return out, true
}
