package main

// Dispatch tables: a call through a function value looked up in a package-level map
// that is filled once, by its initialiser, with named functions and never written again
// (commandDecoders[cmdType](data)). Such a call is a nondeterministic choice among the
// registered functions: the union of their effects, an unconstrained result, and - under
// `safety on` - the obligation that the looked-up key is present (a missing key yields a
// nil function). The registered set is recomputed from the SSA on every run.

import (
	"fmt"
	"go/token"
	"go/types"
	"sort"

	"golang.org/x/tools/go/ssa"
)

type dispatchTable struct {
	global  *ssa.Global
	targets []*ssa.Function
}

// dispatchTableOf resolves the function value of a call to a dispatch table.
func (x *Exec) dispatchTableOf(v ssa.Value) (*dispatchTable, *ssa.Lookup) {
	var lk *ssa.Lookup
	switch i := v.(type) {
	case *ssa.Extract:
		if i.Index != 0 {
			return nil, nil
		}
		lk, _ = i.Tuple.(*ssa.Lookup)
	case *ssa.Lookup:
		lk = i
	}
	if lk == nil {
		return nil, nil
	}
	ld, ok := lk.X.(*ssa.UnOp)
	if !ok || ld.Op != token.MUL {
		return nil, nil
	}
	g, ok := ld.X.(*ssa.Global)
	if !ok || g.Pkg == nil {
		return nil, nil
	}
	if x.prog.dispatch == nil {
		x.prog.dispatch = map[*ssa.Global]*dispatchTable{}
	}
	if dt, ok := x.prog.dispatch[g]; ok {
		return dt, lk
	}
	dt := analyseDispatchTable(g)
	x.prog.dispatch[g] = dt
	return dt, lk
}

func analyseDispatchTable(g *ssa.Global) *dispatchTable {
	if _, ok := g.Type().(*types.Pointer).Elem().Underlying().(*types.Map); !ok {
		return nil
	}
	var mk *ssa.MakeMap
	stores := 0
	okUse := true
	var visit func(f *ssa.Function)
	visit = func(f *ssa.Function) {
		for _, b := range f.Blocks {
			for _, in := range b.Instrs {
				switch i := in.(type) {
				case *ssa.Store:
					if i.Addr == g {
						stores++
						m, isMk := i.Val.(*ssa.MakeMap)
						if !isMk || f.Name() != "init" || f.Parent() != nil {
							okUse = false
						}
						mk = m
					} else if i.Val == g {
						okUse = false // the variable's address escapes
					}
				case *ssa.UnOp:
					if i.Op != token.MUL || i.X != g {
						continue
					}
					// every use of the loaded map must be a read
					if i.Referrers() == nil {
						continue
					}
					for _, r := range *i.Referrers() {
						switch u := r.(type) {
						case *ssa.Lookup:
							if u.X != i {
								okUse = false
							}
						case *ssa.Range, *ssa.DebugRef:
						case *ssa.Call:
							if bi, isB := u.Call.Value.(*ssa.Builtin); !isB || bi.Name() != "len" {
								okUse = false
							}
						default:
							okUse = false
						}
					}
				default:
					// any other instruction mentioning the global itself (its address)
					for _, op := range in.Operands(nil) {
						if op != nil && *op == g {
							if _, isLoad := in.(*ssa.UnOp); !isLoad {
								okUse = false
							}
						}
					}
				}
			}
		}
		for _, af := range f.AnonFuncs {
			visit(af)
		}
	}
	for _, m := range g.Pkg.Members {
		switch mm := m.(type) {
		case *ssa.Function:
			visit(mm)
		case *ssa.Type:
			for _, t := range []types.Type{mm.Type(), types.NewPointer(mm.Type())} {
				ms := g.Pkg.Prog.MethodSets.MethodSet(t)
				for i := 0; i < ms.Len(); i++ {
					if fn := g.Pkg.Prog.MethodValue(ms.At(i)); fn != nil && fn.Pkg == g.Pkg {
						visit(fn)
					}
				}
			}
		}
	}
	if !okUse || stores != 1 || mk == nil || mk.Referrers() == nil {
		return nil
	}
	seen := map[*ssa.Function]bool{}
	dt := &dispatchTable{global: g}
	for _, r := range *mk.Referrers() {
		switch u := r.(type) {
		case *ssa.MapUpdate:
			if u.Map != mk {
				return nil
			}
			val := u.Value
			if ct, ok := val.(*ssa.ChangeType); ok {
				val = ct.X
			}
			fn, ok := val.(*ssa.Function)
			if !ok {
				return nil
			}
			if !seen[fn] {
				seen[fn] = true
				dt.targets = append(dt.targets, fn)
			}
		case *ssa.Store:
			if u.Val != mk || u.Addr != g {
				return nil
			}
		case *ssa.DebugRef:
		default:
			return nil
		}
	}
	sort.Slice(dt.targets, func(i, j int) bool { return funcKey(dt.targets[i]) < funcKey(dt.targets[j]) })
	if len(dt.targets) == 0 {
		return nil
	}
	return dt
}

// dispatchMods: the union of what the registered functions may write (all=true: unknown).
func (x *Exec) dispatchMods(dt *dispatchTable, acc map[string]modTarget) bool {
	if x.dispatchDepth >= 2 {
		return true // a registered function dispatches through the table again
	}
	x.dispatchDepth++
	defer func() { x.dispatchDepth-- }()
	for _, cf := range dt.targets {
		key := fullFuncKey(cf)
		if c := x.contractFor(key); c != nil && (c.HasAssigns || c.Pure) {
			if len(c.Assigns) > 0 {
				ms, all := x.contractModKeys(c, cf)
				if all {
					return true
				}
				for _, m := range ms {
					mergeModTarget(acc, m)
				}
			}
			if x.calledContracts == nil {
				x.calledContracts = map[string]bool{}
			}
			x.calledContracts[key] = true
			continue
		}
		x.prog.ensureBuilt(cf)
		if cf.Blocks == nil {
			return true
		}
		if x.collectMods(cf, nil, map[*ssa.Function]bool{cf: true}, acc, 1) {
			return true
		}
	}
	return false
}

// dispatchCall executes a call through a dispatch table.
func (x *Exec) dispatchCall(fr *Frame, st *State, dt *dispatchTable, lk *ssa.Lookup, rt types.Type, pos token.Pos) V {
	// a missing key yields the nil function: calling it panics (a present key has a non-nil
	// value, see lookup)
	if lv, ok := fr.vals[lk]; ok {
		val := lv.S
		if lk.CommaOk && len(lv.Tup) == 2 {
			val = lv.Tup[0].S
		}
		if val != "" {
			x.check(fr, st, pos, "nil-func-call", "(not (= "+val+" 0))")
		}
	}
	acc := map[string]modTarget{}
	if x.dispatchMods(dt, acc) {
		x.havocAll(st, fmt.Sprintf("call through dispatch table %s: a registered function has unknown effects", dt.global.Name()))
		return x.freshOfType(st, rt, "dyn")
	}
	x.note("call through dispatch table %s is a choice among its %d registered functions (union of their effects, unconstrained result)", dt.global.Name(), len(dt.targets))
	for _, k := range sortedKeys(acc) {
		x.havocModTarget(st, acc[k])
	}
	na := x.s.declare("alloc", "Int")
	x.assume("true", "(>= "+na+" "+st.alloc+")")
	st.alloc = na
	return x.freshOfType(st, rt, "dyn")
}
