package main

import (
	"flag"
	"fmt"
	"os"
	"sort"

	"golang.org/x/tools/go/ssa"
)

// cmdSSA prints the SSA of a function with loop ordinals and call ordinals
// (the keys contract files use).
func cmdSSA(args []string) int {
	fs := flag.NewFlagSet("ssa", flag.ExitOnError)
	repo := fs.String("repo", "/repo", "repository root")
	pkg := fs.String("pkg", "", "package pattern")
	fn := fs.String("func", "", "function key relative to the package")
	fs.Parse(args)
	prog, err := loadProgram(*repo, []string{*pkg}, nil)
	if err != nil {
		fmt.Fprintln(os.Stderr, err)
		return 2
	}
	f := prog.findFunc(prog.pkgs[0].PkgPath, *fn)
	if f == nil {
		fmt.Fprintln(os.Stderr, "not found:", *fn)
		return 2
	}
	f.WriteTo(os.Stdout)
	loops := findLoops(f)
	var ls []*loopInfo
	for _, l := range loops {
		ls = append(ls, l)
	}
	sort.Slice(ls, func(i, j int) bool { return ls[i].ordinal < ls[j].ordinal })
	for _, l := range ls {
		fmt.Printf("loop %d: head block %d (%s) at %s, %d blocks\n", l.ordinal, l.head.Index, l.head.Comment, prog.pos(l.minPos), len(l.blocks))
		for _, in := range l.head.Instrs {
			if phi, ok := in.(*ssa.Phi); ok {
				fmt.Printf("   phi %s comment=%q\n", phi.Name(), phi.Comment)
			}
		}
	}
	return 0
}
