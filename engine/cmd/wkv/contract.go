package main

// Contract files: `//@` comment blocks in <pkg>/verif_contracts.go inside /repo
// (build tag `verif`, comment-only) — DESIGN.md 3.2 / 3.4.

import (
	"fmt"
	"os"
	"regexp"
	"strconv"
	"strings"
)

type Clause struct {
	Kind string // requires, ensures, invariant, decreases, assert, assume
	Tag  string // property tag, e.g. C15.channel-epoch-monotone ("" = proof structure)
	Src  string
	E    CExpr
	Line int
	File string
}

type LoopContract struct {
	Invariants []*Clause
	Decreases  *Clause
	// Latch: asserted at every back edge, in the state and with the names (and the call
	// log of the iteration) at that point: "every completed iteration has done ..."
	Latch []*Clause
}

type CallContract struct {
	Asserts []*Clause
	Assumes []*Clause
}

type Contract struct {
	Key      string // function key relative to the package, e.g. (*T).M, F, F$1
	Pkg      string
	Requires []*Clause
	Ensures  []*Clause
	Assigns  []string // raw place expressions
	HasAssigns bool
	Loops    map[int]*LoopContract
	Calls    map[string]*CallContract // keyed by "callee#ordinal"
	Safety   bool
	// AutoInv: candidate loop invariants `v >= c` for every integer loop variable that enters
	// its loop with the constant c; candidates that are not inductive are dropped (Houdini)
	AutoInv bool
	// BinaryAbstract: encoding/binary PutUintN/AppendUintN write unconstrained bytes (a sound
	// over-approximation that keeps frame and safety proofs of long encoders small)
	BinaryAbstract bool
	Mode     string // "", "bv"
	Strings  string // "", "smt"
	Trusted  bool   // body not checked (only allowed for external functions)
	Pure     bool
	Inline   string // "", "never", "always"
	File     string
	Line     int
	Lemma    bool // a lemma: no Go body; requires ==> ensures is the obligation
	Params   []SpecParam
	Unroll   map[int]int
	Atomics  map[string]*AtomicSpec // "Type.field" -> rely/guarantee
	Inventory []InventorySpec
	AllowedCalls *AllowedCalls
	// ForbiddenCalls: callees the function body (and its closures) must not call: other
	// write paths of the same resource; helper calls may come and go
	ForbiddenCalls *AllowedCalls
	// AbstractCalls: callees (pkg-qualified keys as in allowed-calls) that this proof treats
	// as uninterpreted deterministic functions of their value arguments
	AbstractCalls []string
	// PureParams: function-typed parameters whose calls are assumed effect-free
	// (arbitrary result, no heap effect): callbacks such as recordAt(i)
	PureParams []string
	// Scope: for a contract about a function of a package outside /repo (declared after a
	// `package` directive), the /repo package whose contract file declares it; such contracts
	// apply only while functions of that package are verified
	Scope string
}

// AllowedCalls: the complete list of callees the function body may call.
type AllowedCalls struct {
	Names []string
	Tag   string
	Line  int
}

// AtomicSpec: rely/guarantee over (old, new) for one atomic field (DESIGN.md 3.5).
type AtomicSpec struct {
	Field     string
	Rely      *Clause
	Guarantee *Clause
}

// InventorySpec: the listed functions are the only ones that reference the field.
type InventorySpec struct {
	Field   string   // Type.field
	Writers []string // function keys relative to the package
	Tag     string
	Line    int
}

type SpecParam struct {
	Name string
	Typ  string
}

type SpecFunc struct {
	Name   string
	Pkg    string
	Params []SpecParam
	Ret    string
	Body   CExpr
	Src    string
	Line   int
	File   string
}

type ContractSet struct {
	Funcs map[string]*Contract  // "pkgpath.key"
	Specs map[string]*SpecFunc  // "pkgpath.name"
	Axioms map[string][]*Axiom  // pkgpath -> definitional axioms about its uninterpreted spec functions
	Files []string
}

// Axiom: `axiom name: expr` - a closed formula defining an uninterpreted spec
// function (typically its recursive unfolding). Assumed wherever one of the spec
// functions it mentions is used; listed in the evidence as an assumption.
type Axiom struct {
	Name string
	Pkg  string
	E    CExpr
	Src  string
	Line int
	File string
}

var clauseKeywords = map[string]bool{
	"func": true, "requires": true, "ensures": true, "assigns": true, "loop": true,
	"safety": true, "auto-invariants": true, "binary": true, "mode": true, "strings": true, "trusted": true, "pure": true, "inline": true,
	"spec": true, "lemma": true, "axiom": true, "at-call": true, "unroll": true, "atomic": true, "inventory": true, "allowed-calls": true, "forbidden-calls": true, "abstract-calls": true, "pure-params": true, "package": true,
}

var tagRe = regexp.MustCompile(`^\[(C[0-9]+\.[A-Za-z0-9_.-]+)\]\s*`)

func newContractSet() *ContractSet {
	return &ContractSet{Funcs: map[string]*Contract{}, Specs: map[string]*SpecFunc{}, Axioms: map[string][]*Axiom{}}
}

// loadContractFile parses one contract file for package pkgPath.
func (cs *ContractSet) loadContractFile(path, pkgPath string) error {
	filePkg := pkgPath
	data, err := os.ReadFile(path)
	if err != nil {
		return err
	}
	cs.Files = append(cs.Files, path)
	type rawLine struct {
		text string
		line int
	}
	var lines []rawLine
	for i, l := range strings.Split(string(data), "\n") {
		t := strings.TrimSpace(l)
		if !strings.HasPrefix(t, "//@") {
			continue
		}
		body := strings.TrimPrefix(t, "//@")
		lines = append(lines, rawLine{body, i + 1})
	}
	// join continuation lines
	var stmts []rawLine
	for _, l := range lines {
		f := strings.Fields(l.text)
		if len(f) == 0 {
			continue
		}
		if clauseKeywords[f[0]] || len(stmts) == 0 {
			stmts = append(stmts, rawLine{strings.TrimSpace(l.text), l.line})
		} else {
			stmts[len(stmts)-1].text += " " + strings.TrimSpace(l.text)
		}
	}
	var cur *Contract
	mkClause := func(kind, src string, line int) (*Clause, error) {
		c := &Clause{Kind: kind, Line: line, File: path}
		if m := tagRe.FindStringSubmatch(src); m != nil {
			c.Tag = m[1]
			src = src[len(m[0]):]
		}
		c.Src = src
		e, err := parseCExpr(src)
		if err != nil {
			return nil, fmt.Errorf("%s:%d: %v", path, line, err)
		}
		c.E = e
		return c, nil
	}
	for _, st := range stmts {
		f := strings.Fields(st.text)
		rest := strings.TrimSpace(strings.TrimPrefix(st.text, f[0]))
		switch f[0] {
		case "func", "lemma":
			key := rest
			cur = &Contract{Key: key, Pkg: pkgPath, Loops: map[int]*LoopContract{}, Calls: map[string]*CallContract{}, File: path, Line: st.line, Unroll: map[int]int{}}
			if f[0] == "lemma" {
				cur.Lemma = true
				// lemma name(a T, b U)
				name, params, _, err := parseSig(rest)
				if err != nil {
					return fmt.Errorf("%s:%d: %v", path, st.line, err)
				}
				cur.Key = "lemma:" + name
				cur.Params = params
			}
			full := pkgPath + "." + cur.Key
			if pkgPath != filePkg {
				cur.Scope = filePkg
				full += "@" + filePkg
			}
			if _, dup := cs.Funcs[full]; dup {
				return fmt.Errorf("%s:%d: duplicate contract for %s", path, st.line, full)
			}
			cs.Funcs[full] = cur
		case "package":
			// package <import path>: the following contracts are about functions of that
			// (standard-library or third-party) package; they can only be trusted contracts
			// or port contracts, since their bodies are not in /repo
			pkgPath = strings.TrimSpace(rest)
			cur = nil
		case "axiom":
			// axiom name: expr
			ci := strings.Index(rest, ":")
			if ci < 0 {
				return fmt.Errorf("%s:%d: axiom needs `axiom name: expr`", path, st.line)
			}
			ae, err := parseCExpr(strings.TrimSpace(rest[ci+1:]))
			if err != nil {
				return fmt.Errorf("%s:%d: %v", path, st.line, err)
			}
			cs.Axioms[pkgPath] = append(cs.Axioms[pkgPath], &Axiom{Name: strings.TrimSpace(rest[:ci]), Pkg: pkgPath, E: ae, Src: strings.TrimSpace(rest[ci+1:]), Line: st.line, File: path})
		case "spec":
			// spec name(a T, b U) R = expr
			eq := strings.Index(rest, "=")
			// find the '=' that is not part of '==', after the closing paren of the signature
			depth := 0
			eq = -1
			for i := 0; i < len(rest); i++ {
				switch rest[i] {
				case '(':
					depth++
				case ')':
					depth--
				case '=':
					if depth == 0 && eq < 0 {
						eq = i
					}
				}
				if eq >= 0 {
					break
				}
			}
			if eq < 0 {
				// `spec f(a T) R` without a body: an uninterpreted (ghost) function - the same
				// unknown function of its arguments wherever it is used
				name, params, ret, err := parseSig(strings.TrimSpace(rest))
				if err != nil {
					return fmt.Errorf("%s:%d: %v", path, st.line, err)
				}
				if ret == "" {
					return fmt.Errorf("%s:%d: uninterpreted spec needs a result type", path, st.line)
				}
				cs.Specs[pkgPath+"."+name] = &SpecFunc{Name: name, Pkg: pkgPath, Params: params, Ret: ret, Src: rest, Line: st.line, File: path}
				continue
			}
			name, params, ret, err := parseSig(strings.TrimSpace(rest[:eq]))
			if err != nil {
				return fmt.Errorf("%s:%d: %v", path, st.line, err)
			}
			body, err := parseCExpr(strings.TrimSpace(rest[eq+1:]))
			if err != nil {
				return fmt.Errorf("%s:%d: %v", path, st.line, err)
			}
			cs.Specs[pkgPath+"."+name] = &SpecFunc{Name: name, Pkg: pkgPath, Params: params, Ret: ret, Body: body, Src: rest, Line: st.line, File: path}
		default:
			if cur == nil {
				return fmt.Errorf("%s:%d: clause outside func block", path, st.line)
			}
			switch f[0] {
			case "requires", "ensures":
				c, err := mkClause(f[0], rest, st.line)
				if err != nil {
					return err
				}
				if f[0] == "requires" {
					cur.Requires = append(cur.Requires, c)
				} else {
					cur.Ensures = append(cur.Ensures, c)
				}
			case "assigns":
				cur.HasAssigns = true
				if rest != "" && rest != "nothing" {
					for _, a := range splitTop(rest, ',') {
						cur.Assigns = append(cur.Assigns, strings.TrimSpace(a))
					}
				}
			case "loop":
				if len(f) < 3 {
					return fmt.Errorf("%s:%d: bad loop clause", path, st.line)
				}
				n, err := strconv.Atoi(f[1])
				if err != nil {
					return fmt.Errorf("%s:%d: bad loop ordinal", path, st.line)
				}
				lc := cur.Loops[n]
				if lc == nil {
					lc = &LoopContract{}
					cur.Loops[n] = lc
				}
				src := strings.TrimSpace(strings.TrimPrefix(strings.TrimSpace(strings.TrimPrefix(rest, f[1])), f[2]))
				c, err := mkClause(f[2], src, st.line)
				if err != nil {
					return err
				}
				switch f[2] {
				case "invariant":
					lc.Invariants = append(lc.Invariants, c)
				case "decreases":
					lc.Decreases = c
				case "latch-assert":
					lc.Latch = append(lc.Latch, c)
				default:
					return fmt.Errorf("%s:%d: unknown loop clause %s", path, st.line, f[2])
				}
			case "unroll":
				return fmt.Errorf("%s:%d: `unroll` is not implemented - give the loop an invariant", path, st.line)
			case "unroll-unused":
				n, err1 := strconv.Atoi(f[1])
				k, err2 := strconv.Atoi(f[2])
				if err1 != nil || err2 != nil {
					return fmt.Errorf("%s:%d: bad unroll clause", path, st.line)
				}
				cur.Unroll[n] = k
			case "at-call":
				// at-call callee#k assert|assume expr
				if len(f) < 4 {
					return fmt.Errorf("%s:%d: bad at-call clause", path, st.line)
				}
				key := f[1]
				if !strings.Contains(key, "#") {
					key += "#1"
				}
				cc := cur.Calls[key]
				if cc == nil {
					cc = &CallContract{}
					cur.Calls[key] = cc
				}
				src := strings.TrimSpace(strings.TrimPrefix(strings.TrimSpace(strings.TrimPrefix(rest, f[1])), f[2]))
				c, err := mkClause(f[2], src, st.line)
				if err != nil {
					return err
				}
				if f[2] == "assert" {
					cc.Asserts = append(cc.Asserts, c)
				} else if f[2] == "assume" {
					cc.Assumes = append(cc.Assumes, c)
				} else {
					return fmt.Errorf("%s:%d: at-call needs assert|assume", path, st.line)
				}
			case "safety":
				cur.Safety = rest == "on"
			case "auto-invariants":
				cur.AutoInv = true
			case "binary":
				if rest != "abstract" {
					return fmt.Errorf("%s:%d: only `binary abstract` is known", path, st.line)
				}
				cur.BinaryAbstract = true
			case "atomic":
				// atomic Type.field rely <expr> guarantee [tag] <expr>
				gi := strings.Index(rest, " guarantee ")
				ri := strings.Index(rest, " rely ")
				if ri < 0 || gi < ri {
					return fmt.Errorf("%s:%d: atomic clause needs: atomic T.f rely <e> guarantee <e>", path, st.line)
				}
				field := strings.TrimSpace(rest[:ri])
				rc, err := mkClause("rely", strings.TrimSpace(rest[ri+6:gi]), st.line)
				if err != nil {
					return err
				}
				gc, err := mkClause("guarantee", strings.TrimSpace(rest[gi+11:]), st.line)
				if err != nil {
					return err
				}
				if cur.Atomics == nil {
					cur.Atomics = map[string]*AtomicSpec{}
				}
				cur.Atomics[field] = &AtomicSpec{Field: field, Rely: rc, Guarantee: gc}
			case "pure-params":
				for _, w := range splitTop(rest, ',') {
					cur.PureParams = append(cur.PureParams, strings.TrimSpace(w))
				}
			case "abstract-calls":
				for _, w := range splitTop(rest, ',') {
					cur.AbstractCalls = append(cur.AbstractCalls, strings.TrimSpace(w))
				}
			case "allowed-calls":
				// allowed-calls [tag] f1, f2, ...: the function body calls nothing else
				r2 := rest
				ac := &AllowedCalls{Line: st.line}
				if m := tagRe.FindStringSubmatch(r2); m != nil {
					ac.Tag = m[1]
					r2 = r2[len(m[0]):]
				}
				for _, w := range splitTop(r2, ',') {
					ac.Names = append(ac.Names, strings.TrimSpace(w))
				}
				cur.AllowedCalls = ac
			case "forbidden-calls":
				// forbidden-calls [tag] f1, f2, ...: the function body calls none of these
				r2 := rest
				fc := &AllowedCalls{Line: st.line}
				if m := tagRe.FindStringSubmatch(r2); m != nil {
					fc.Tag = m[1]
					r2 = r2[len(m[0]):]
				}
				for _, w := range splitTop(r2, ',') {
					fc.Names = append(fc.Names, strings.TrimSpace(w))
				}
				cur.ForbiddenCalls = fc
			case "inventory":
				// inventory [tag] Type.field only-in f1, f2
				inv := InventorySpec{Line: st.line}
				r2 := rest
				if m := tagRe.FindStringSubmatch(r2); m != nil {
					inv.Tag = m[1]
					r2 = r2[len(m[0]):]
				}
				oi := strings.Index(r2, " only-in ")
				if oi < 0 {
					return fmt.Errorf("%s:%d: inventory clause needs: inventory T.f only-in f1, f2", path, st.line)
				}
				inv.Field = strings.TrimSpace(r2[:oi])
				for _, w := range splitTop(r2[oi+9:], ',') {
					inv.Writers = append(inv.Writers, strings.TrimSpace(w))
				}
				cur.Inventory = append(cur.Inventory, inv)
			case "mode":
				cur.Mode = rest
			case "strings":
				cur.Strings = rest
			case "trusted":
				cur.Trusted = true
			case "pure":
				cur.Pure = true
			case "inline":
				cur.Inline = rest
			}
		}
	}
	return nil
}

func splitTop(s string, sep byte) []string {
	var out []string
	depth := 0
	last := 0
	for i := 0; i < len(s); i++ {
		switch s[i] {
		case '(', '[':
			depth++
		case ')', ']':
			depth--
		default:
			if s[i] == sep && depth == 0 {
				out = append(out, s[last:i])
				last = i + 1
			}
		}
	}
	out = append(out, s[last:])
	return out
}

// parseSig parses `name(a T, b U) R`.
func parseSig(s string) (string, []SpecParam, string, error) {
	lp := strings.Index(s, "(")
	rp := strings.LastIndex(s, ")")
	if lp < 0 || rp < lp {
		return "", nil, "", fmt.Errorf("bad signature %q", s)
	}
	name := strings.TrimSpace(s[:lp])
	var params []SpecParam
	inner := strings.TrimSpace(s[lp+1 : rp])
	if inner != "" {
		for _, p := range splitTop(inner, ',') {
			f := strings.Fields(strings.TrimSpace(p))
			if len(f) < 2 {
				return "", nil, "", fmt.Errorf("bad parameter %q in %q", p, s)
			}
			params = append(params, SpecParam{Name: f[0], Typ: strings.Join(f[1:], "")})
		}
	}
	return name, params, strings.TrimSpace(s[rp+1:]), nil
}
